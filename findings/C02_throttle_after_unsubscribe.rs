// KNOWN FINDING (property C02), reproduced natively on the real code (copy into <repo>/tests/):
// throttle keeps its window task outside the subscription it returns (`type Unsub = S::Unsub`),
// so a pending trailing item is delivered AFTER unsubscribe() has returned.
use rxrust::prelude::*;
use rxrust::ops::throttle::ThrottleEdge;
use futures::executor::LocalPool;
use std::{cell::RefCell, rc::Rc, time::Duration, convert::Infallible};
#[test]
fn throttle_trailing_item_after_unsubscribe() {
  let mut pool = LocalPool::new();
  let out = Rc::new(RefCell::new(vec![]));
  let o = out.clone();
  let mut s = Subject::<'_, i32, Infallible>::default();
  let u = s.clone().throttle_time(Duration::from_millis(5), ThrottleEdge::tailing(), pool.spawner()).subscribe(move |v| o.borrow_mut().push(v));
  s.next(1);
  u.unsubscribe();
  std::thread::sleep(Duration::from_millis(10));
  pool.run();
  assert!(out.borrow().is_empty(), "delivered after unsubscribe(): {:?}", out.borrow());
}
