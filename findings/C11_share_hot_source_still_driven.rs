// KNOWN FINDING (property C11), reproduced natively on the real code (copy into <repo>/tests/):
// share() drops the subscription returned by connect(), so with a HOT source the upstream
// operators keep running after the last subscriber has left.
use rxrust::prelude::*;
use std::{cell::RefCell, rc::Rc};
#[test]
fn share_last_leaver_disconnects_source() {
  let taps = Rc::new(RefCell::new(0));
  let t = taps.clone();
  let mut source = Subject::<'_, i32, std::convert::Infallible>::default();
  let shared = source.clone().tap(move |_| *t.borrow_mut() += 1).share();
  let u1 = shared.clone().subscribe(|_| {});
  source.next(1);
  assert_eq!(*taps.borrow(), 1);
  u1.unsubscribe();
  source.next(2);
  assert_eq!(*taps.borrow(), 1, "source still driven after the last subscriber left");
}
