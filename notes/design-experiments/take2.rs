use vstd::prelude::*;
verus! {

pub enum Ev<Item, Err> { Next(Item), Error(Err), Complete }

pub assume_specification<T, U, F: FnOnce(T) -> U>[ Option::<T>::map_or ](opt: Option<T>, default: U, f: F) -> (r: U)
    requires opt is Some ==> f.requires((opt->0,)),
    ensures match opt { Some(t) => f.ensures((t,), r), None => r == default };

pub trait Observer<Item, Err>: Sized {
  spec fn log(&self) -> Seq<Ev<Item, Err>>;
  spec fn delivered(t: Seq<Ev<Item, Err>>) -> bool;
  spec fn fin(&self) -> bool;

  fn next(&mut self, value: Item)
    ensures final(self).log() == old(self).log().push(Ev::Next(value)),
            final(self).fin() == old(self).fin();
  fn error(self, err: Err)
    ensures Self::delivered(self.log().push(Ev::Error(err)));
  fn complete(self)
    ensures Self::delivered(self.log().push(Ev::Complete));
  fn is_finished(&self) -> (r: bool)
    ensures r == self.fin();
}

pub struct TakeObserver<O> {
  pub observer: Option<O>,
  pub count: usize,
  pub hits: usize,
}

impl<Item, Err, O> Observer<Item, Err> for TakeObserver<O>
where
  O: Observer<Item, Err>,
{
  closed spec fn log(&self) -> Seq<Ev<Item, Err>> { Seq::empty() }
  closed spec fn delivered(t: Seq<Ev<Item, Err>>) -> bool { true }
  closed spec fn fin(&self) -> bool { match self.observer { Some(o) => o.fin(), None => true } }

  fn next(&mut self, value: Item) 
    ensures
      // slot open and quota left: forwards, counts, completes exactly when quota reached
      (old(self).hits < old(self).count && old(self).observer is Some) ==> {
         &&& final(self).hits == old(self).hits + 1
         &&& final(self).count == old(self).count
         &&& (final(self).hits < final(self).count ==> final(self).observer is Some
               && final(self).observer->0.log() == old(self).observer->0.log().push(Ev::Next(value)))
         &&& (final(self).hits == final(self).count ==> final(self).observer is None
               && O::delivered(old(self).observer->0.log().push(Ev::Next(value)).push(Ev::Complete)))
      },
      !(old(self).hits < old(self).count && old(self).observer is Some) ==> *final(self) == *old(self),
  {
    if self.hits < self.count {
      if let Some(observer) = self.observer.as_mut() {
        self.hits += 1;
        observer.next(value);
        if self.hits == self.count {
          self.observer.take().unwrap().complete()
        }
      }
    }
  }

  #[inline]
  fn error(self, err: Err) 
    ensures self.observer is Some ==> O::delivered(self.observer->0.log().push(Ev::Error(err)))
  { let mut self_ = self;
    if let Some(observer) = self_.observer.take() {
      observer.error(err)
    }
  }

  #[inline]
  fn complete(self) 
    ensures self.observer is Some ==> O::delivered(self.observer->0.log().push(Ev::Complete))
  { let mut self_ = self;
    if let Some(observer) = self_.observer.take() {
      observer.complete()
    }
  }

  fn is_finished(&self) -> bool {
    self.observer.as_ref().map_or(true, |o| o.is_finished())
  }
}

} // verus!
fn main() {}
