use vstd::prelude::*;
verus! {
pub trait Publisher<Item> {
  spec fn open(&self) -> bool;
  spec fn got(&self) -> Seq<Item>;
  fn p_next(&mut self, value: Item)
    ensures final(self).open() == old(self).open(),
            final(self).got() == if old(self).open() { old(self).got().push(value) } else { old(self).got() };
  fn p_is_closed(&self) -> (r: bool) ensures r == !self.open();
}

fn bcast<Item: Copy>(v: &mut Vec<Box<dyn Publisher<Item>>>, value: Item)
  ensures final(v)@.len() == old(v)@.len(),
{
  let n = v.len();
  let mut i = 0;
  while i < n
    invariant v@.len() == n, i <= n,
    decreases n - i,
  {
    v[i].p_next(value);
    i += 1;
  }
}
}
fn main() {}
