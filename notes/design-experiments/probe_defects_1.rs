use rxrust::prelude::*;
use rxrust::ops::throttle::ThrottleEdge;
use std::convert::Infallible;
use std::{cell::RefCell, rc::Rc, time::{Duration, Instant}};
use futures::executor::LocalPool;

#[test]
fn p01_never_completes() {
  let done = Rc::new(RefCell::new(false));
  let d = done.clone();
  observable::never().on_complete(move || *d.borrow_mut() = true).subscribe(|_| {});
  println!("never completed = {}", done.borrow());
  assert!(!*done.borrow(), "never() completed");
}

#[test]
fn p02_delay_at_future() {
  let mut pool = LocalPool::new();
  let at = Instant::now() + Duration::from_millis(200);
  let got = Rc::new(RefCell::new(None));
  let g = got.clone();
  let start = Instant::now();
  observable::of(1).delay_at(at, pool.spawner()).subscribe(move |_| *g.borrow_mut() = Some(Instant::now()));
  pool.run();
  let t = got.borrow().unwrap();
  println!("delivered after {:?}", t - start);
  assert!(t >= at, "delivered before the instant");
}

#[test]
fn p04_merge_all_queued_sync_inner() {
  let out = Rc::new(RefCell::new(vec![]));
  let o = out.clone();
  let mut s: Subject<i32, Infallible> = Subject::default();
  let inners: Vec<ops::box_it::BoxOp<'static, i32, Infallible>> = vec![
    s.clone().box_it(),
    observable::of(7).box_it(),
  ];
  observable::from_iter(inners).merge_all(1).subscribe(move |v| o.borrow_mut().push(v));
  s.next(1);
  s.complete();
  println!("{:?}", out.borrow());
  assert_eq!(*out.borrow(), vec![1, 7]);
}

#[test]
fn p05_throttle_all_single_item() {
  let mut pool = LocalPool::new();
  let out = Rc::new(RefCell::new(vec![]));
  let o = out.clone();
  let mut s: Subject<i32, Infallible> = Subject::default();
  s.clone().throttle_time(Duration::from_millis(20), ThrottleEdge::all(), pool.spawner())
    .subscribe(move |v| o.borrow_mut().push(v));
  s.next(1);
  pool.run();
  println!("{:?}", out.borrow());
  assert_eq!(*out.borrow(), vec![1]);
}

#[test]
fn p06_throttle_trailing_after_unsubscribe() {
  let mut pool = LocalPool::new();
  let out = Rc::new(RefCell::new(vec![]));
  let o = out.clone();
  let mut s: Subject<i32, Infallible> = Subject::default();
  let u = s.clone().throttle_time(Duration::from_millis(20), ThrottleEdge::tailing(), pool.spawner())
    .subscribe(move |v| o.borrow_mut().push(v));
  s.next(1);
  u.unsubscribe();
  pool.run();
  println!("{:?}", out.borrow());
  assert!(out.borrow().is_empty());
}

#[test]
fn p07_share_last_leaver() {
  let taps = Rc::new(RefCell::new(0));
  let t = taps.clone();
  let mut s: Subject<i32, Infallible> = Subject::default();
  let shared = s.clone().tap(move |_| *t.borrow_mut() += 1).share();
  let a = shared.clone().subscribe(|_| {});
  s.next(1);
  a.unsubscribe();
  s.next(2);
  println!("taps {}", taps.borrow());
  assert_eq!(*taps.borrow(), 1);
}

#[test]
fn p08_zip_subscription_is_closed() {
  let out = Rc::new(RefCell::new(vec![]));
  let o = out.clone();
  let mut s: Subject<i32, Infallible> = Subject::default();
  let u = s.clone().merge(observable::of(9)).subscribe(move |v| o.borrow_mut().push(v));
  let closed = u.is_closed();
  s.next(1);
  println!("closed={} out={:?}", closed, out.borrow());
  assert!(!(closed && out.borrow().len() == 2), "is_closed()==true but item delivered afterwards");
}

#[test]
fn p09_multi_append_after_unsub() {
  let m = MultiSubscription::default();
  let mut m2 = m.clone();
  m.unsubscribe();
  let s: Subject<i32, Infallible> = Subject::default();
  let out = Rc::new(RefCell::new(vec![]));
  let o = out.clone();
  let sub = s.clone().subscribe(move |v| o.borrow_mut().push(v));
  m2.append(BoxSubscription::new(sub));
  let mut s2 = s.clone();
  s2.next(5);
  println!("{:?}", out.borrow());
  assert!(out.borrow().is_empty(), "late-appended subscription left running");
}

#[test]
fn p14_to_future_error() {
  use futures::FutureExt;
  let fut = observable::throw("boom").map(|_: ()| 1).to_future();
  let r = fut.now_or_never();
  println!("to_future on error ready = {:?}", r.is_some());
  assert!(r.is_some(), "to_future stays pending on error");
}

#[test]
fn p15_to_stream_error_ends() {
  use futures::{FutureExt, StreamExt};
  let mut st = observable::throw("boom").map(|_: ()| 1).to_stream();
  let first = st.next().now_or_never();
  let second = st.next().now_or_never();
  println!("first={:?} second_ready={}", first.map(|x| x.map(|r| r.is_err())), second.is_some());
  assert!(second.is_some(), "stream never ends after error");
}
