use rxrust::prelude::*;
use std::{cell::RefCell, rc::Rc, time::Duration, convert::Infallible};
use futures::executor::LocalPool;

#[test]
fn p11_from_iter_take_stops_pulling() {
  let pulls = Rc::new(RefCell::new(0usize));
  let p = pulls.clone();
  let it = (0..1000).inspect(move |_| *p.borrow_mut() += 1);
  observable::from_iter(it).take(3).subscribe(|_| {});
  println!("pulls = {}", pulls.borrow());
  assert!(*pulls.borrow() <= 4);
}

#[test]
fn p10_skip_until_notifier_retired() {
  let mut pool = LocalPool::new();
  let ticks = Rc::new(RefCell::new(0usize));
  let t = ticks.clone();
  let mut s: Subject<i32, Infallible> = Subject::default();
  let notifier = observable::interval(Duration::from_millis(2), pool.spawner()).tap(move |_| *t.borrow_mut() += 1);
  s.clone().skip_until(notifier).take(1).subscribe(|_| {});
  pool.run_until_stalled();
  std::thread::sleep(Duration::from_millis(5));
  pool.run_until_stalled();
  s.next(1); // passes (notifier fired) -> take(1) completes
  for _ in 0..10 { std::thread::sleep(Duration::from_millis(3)); pool.run_until_stalled(); }
  let n1 = *ticks.borrow();
  for _ in 0..10 { std::thread::sleep(Duration::from_millis(3)); pool.run_until_stalled(); }
  let n2 = *ticks.borrow();
  println!("ticks after termination: {} -> {}", n1, n2);
  assert!(n2 <= n1 + 1, "notifier interval still running after the stream ended");
}
