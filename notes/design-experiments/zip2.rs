#![feature(allocator_api)]
use vstd::prelude::*;
use std::collections::VecDeque;
verus! {

pub enum Ev<Item, Err> { Next(Item), Error(Err), Complete }
pub assume_specification<T, A: std::alloc::Allocator>[ VecDeque::<T, A>::is_empty ](v: &VecDeque<T, A>) -> (r: bool)
    ensures r == (v@.len() == 0);


pub trait Observer<Item, Err>: Sized {
  spec fn rx(&self) -> Seq<Ev<Item, Err>>;
  spec fn records(&self) -> bool;
  spec fn delivered(t: Seq<Ev<Item, Err>>) -> bool;
  spec fn fin(&self) -> bool;
  spec fn wf(&self) -> bool;

  fn next(&mut self, value: Item)
    requires old(self).wf(),
    ensures final(self).wf(), old(self).records() ==> final(self).records() && final(self).rx() == old(self).rx().push(Ev::Next(value));
  fn error(self, err: Err)
    requires self.wf(),
    ensures self.records() ==> Self::delivered(self.rx().push(Ev::Error(err)));
  fn complete(self)
    requires self.wf(),
    ensures self.records() ==> Self::delivered(self.rx().push(Ev::Complete));
  fn is_finished(&self) -> (r: bool)
    requires self.wf(),
    ensures r == self.fin();
}

// stand-in for src/rc.rs MutRc: one handle, exclusive access
pub struct MutRc<T>(pub T);
impl<T> MutRc<T> {
  pub fn rc_deref_mut(&mut self) -> (r: &mut T)
    ensures *r == old(self).0, *final(r) == final(self).0,
  { &mut self.0 }
  pub fn rc_deref(&self) -> (r: &T) ensures *r == self.0 { &self.0 }
}

pub enum ZipItem<A, B> {
  ItemA(A),
  ItemB(B),
}

pub struct ZipObserver<O, ItemA, ItemB> {
  pub observer: Option<O>,
  pub a: VecDeque<ItemA>,
  pub b: VecDeque<ItemB>,
  pub completed_one: bool,
}

    impl<O, ItemA, ItemB, Err> Observer<ZipItem<ItemA, ItemB>, Err>
      for MutRc<ZipObserver<O, ItemA, ItemB>>
    where
      O: Observer<(ItemA, ItemB), Err>,
    {
  closed spec fn rx(&self) -> Seq<Ev<ZipItem<ItemA, ItemB>, Err>> { Seq::empty() }
  closed spec fn records(&self) -> bool { false }
  closed spec fn delivered(t: Seq<Ev<ZipItem<ItemA, ItemB>, Err>>) -> bool { true }
  closed spec fn fin(&self) -> bool { match self.0.observer { Some(o) => o.fin(), None => true } }
  closed spec fn wf(&self) -> bool { match self.0.observer { Some(o) => o.wf(), None => true } }

      fn next(&mut self, value: ZipItem<ItemA, ItemB>) 
        ensures
          final(self).0.completed_one == old(self).0.completed_one,
          final(self).0.observer is Some == old(self).0.observer is Some,
          match value {
            ZipItem::ItemA(v) => if old(self).0.b@.len() > 0 {
                &&& final(self).0.a@ == old(self).0.a@
                &&& final(self).0.b@ == old(self).0.b@.drop_first()
                &&& (old(self).0.observer is Some && old(self).0.observer->0.records() ==>
                      final(self).0.observer->0.records() &&
                      final(self).0.observer->0.rx() == old(self).0.observer->0.rx().push(Ev::Next((v, old(self).0.b@[0]))))
              } else {
                &&& final(self).0.a@ == old(self).0.a@.push(v)
                &&& final(self).0.b@ == old(self).0.b@
                &&& final(self).0.observer == old(self).0.observer
              },
            ZipItem::ItemB(v) => if old(self).0.a@.len() > 0 {
                &&& final(self).0.b@ == old(self).0.b@
                &&& final(self).0.a@ == old(self).0.a@.drop_first()
                &&& (old(self).0.observer is Some && old(self).0.observer->0.records() ==>
                      final(self).0.observer->0.records() &&
                      final(self).0.observer->0.rx() == old(self).0.observer->0.rx().push(Ev::Next((old(self).0.a@[0], v))))
              } else {
                &&& final(self).0.b@ == old(self).0.b@.push(v)
                &&& final(self).0.a@ == old(self).0.a@
                &&& final(self).0.observer == old(self).0.observer
              },
          }
      {
        let mut inner = self.rc_deref_mut();
        let mut zip_value = None;
        match value {
          ZipItem::ItemA(v) => {
            if !inner.b.is_empty() {
              zip_value = Some((v, inner.b.pop_front().unwrap()));
            } else {
              inner.a.push_back(v);
            }
          }
          ZipItem::ItemB(v) => {
            if !inner.a.is_empty() {
              zip_value = Some((inner.a.pop_front().unwrap(), v));
            } else {
              inner.b.push_back(v)
            }
          }
        }
        if let (Some(v), Some(observer)) = (zip_value, inner.observer.as_mut())
        {
          observer.next(v)
        }
      }

      fn error(self, err: Err) { let mut self_ = self;
        if let Some(observer) = self_.rc_deref_mut().observer.take() {
          observer.error(err);
        }
      }

      fn complete(self) { let mut self_ = self;
        let mut inner = self_.rc_deref_mut();
        if inner.completed_one {
          if let Some(observer) = inner.observer.take() {
            observer.complete();
          }
        } else {
          inner.completed_one = true;
        }
      }

      #[inline]
      fn is_finished(&self) -> bool {
        match self
          .rc_deref()
          .observer
          .as_ref() { Some(o) => o.is_finished(), None => true }
      }
    }

} // verus!
fn main() {}
