use vstd::prelude::*;
verus! {

pub enum Ev<Item, Err> { Next(Item), Error(Err), Complete }

pub trait Observer<Item, Err>: Sized {
  spec fn rx(&self) -> Seq<Ev<Item, Err>>;
  spec fn records(&self) -> bool;
  spec fn delivered(t: Seq<Ev<Item, Err>>) -> bool;
  spec fn fin(&self) -> bool;

  fn next(&mut self, value: Item)
    ensures old(self).records() ==> final(self).records() && final(self).rx() == old(self).rx().push(Ev::Next(value));
  fn error(self, err: Err)
    ensures self.records() ==> Self::delivered(self.rx().push(Ev::Error(err)));
  fn complete(self)
    ensures self.records() ==> Self::delivered(self.rx().push(Ev::Complete));
  fn is_finished(&self) -> (r: bool)
    ensures r == self.fin();
}

pub struct TakeWhileObserver<O, F> {
  pub observer: Option<O>,
  pub callback: F,
  pub inclusive: bool,
}

impl<O, Item, Err, F> Observer<Item, Err> for TakeWhileObserver<O, F>
where
  O: Observer<Item, Err>,
  F: FnMut(&Item) -> bool,
{
  closed spec fn rx(&self) -> Seq<Ev<Item, Err>> { Seq::empty() }
  closed spec fn records(&self) -> bool { false }
  closed spec fn delivered(t: Seq<Ev<Item, Err>>) -> bool { true }
  closed spec fn fin(&self) -> bool { match self.observer { Some(o) => o.fin(), None => true } }

  fn next(&mut self, value: Item) {
    if let Some(observer) = self.observer.as_mut() {
      if (self.callback)(&value) {
        observer.next(value);
      } else {
        if self.inclusive {
          observer.next(value);
        }
        self.observer.take().unwrap().complete()
      }
    }
  }

  #[inline]
  fn error(self, err: Err) {
    if let Some(o) = self.observer {
      o.error(err)
    }
  }

  #[inline]
  fn complete(self) {
    if let Some(o) = self.observer {
      o.complete()
    }
  }

  fn is_finished(&self) -> bool {
    match self.observer.as_ref() { Some(o) => o.is_finished(), None => true }
  }
}

} // verus!
fn main() {}
