//@ props: C03,C16
//@ target: src/observable/from_iter.rs
//@ thorough-subst: [u8; 3] ==> [u8; 5]
//@ thorough-subst: kani::assume(n <= 3) ==> kani::assume(n <= 5)
//@ thorough-subst: kani::unwind(5) ==> kani::unwind(7)
//@ thorough-subst: kani::assume(k <= 4) ==> kani::assume(k <= 6)
//@ thorough-note: length <= 5
// from_iter / repeat — src/observable/from_iter.rs ObservableIter::actual_subscribe
// (`self.0.into_iter()` over a generic iterator: outside Verus' for-loop support)
use crate::verif_probe::*;

// [C03,C16] from_iter over up to 3 symbolic items with an observer that becomes finished after k
// items: the items arrive in iterator order, none is pushed into a finished observer, then complete
//@ bounded: iterator length <= 3
#[kani::proof]
#[kani::unwind(5)]
fn from_iter_stops_when_finished() {
  let n: usize = kani::any();
  kani::assume(n <= 3);
  let items: [u8; 3] = kani::any();
  let k: usize = kani::any();
  kani::assume(k <= 4);
  let log = new_log();
  let probe = Probe { log: log.clone(), finished: false, finish_after: k };
  from_iter(items.into_iter().take(n)).actual_subscribe(probe);
  let l = log.borrow();
  let delivered = if n < k { n } else { k };
  let mut i = 0;
  while i < delivered { assert!(l.ev[i] == Some(Ev::Next(items[i]))); i += 1; }
  if delivered == n {
    // the iterator was exhausted: completion follows the last item
    assert!(l.n == n + 1 && l.ev[n] == Some(Ev::Complete));
  } else {
    // stopped early for a finished observer: nothing more may be pushed (a trailing `complete`
    // into the finished observer is harmless and not constrained by the property)
    assert!(l.n == delivered || (l.n == delivered + 1 && l.ev[delivered] == Some(Ev::Complete)));
  }
}

// [C03] repeat(v, n) emits v exactly n times, then completes
//@ bounded: n <= 3
#[kani::proof]
#[kani::unwind(5)]
fn repeat_n_times() {
  let n: usize = kani::any();
  kani::assume(n <= 3);
  let v: u8 = kani::any();
  let log = new_log();
  repeat(v, n).actual_subscribe(Probe::new(&log));
  let l = log.borrow();
  let mut i = 0;
  while i < n { assert!(l.ev[i] == Some(Ev::Next(v))); i += 1; }
  assert!(l.n == n + 1 && l.ev[n] == Some(Ev::Complete));
}
