//@ props: C03,C13
//@ target: src/observable/defer.rs
// defer — src/observable/defer.rs (Verus 0.2026.09.13 panics on this impl, see sources.vt)
use crate::verif_probe::*;
use std::cell::Cell;
use std::rc::Rc;

// [C13] building a deferred observable does not call the supplier; subscribing calls it exactly
// once and subscribes what it returned
#[kani::proof]
fn defer_calls_supplier_once_on_subscribe() {
  let calls = Rc::new(Cell::new(0u8));
  let c = calls.clone();
  let v: u8 = kani::any();
  let d = defer(move || { c.set(c.get() + 1); crate::observable::of(v) });
  assert!(calls.get() == 0);
  let log = new_log();
  d.actual_subscribe(Probe::new(&log));
  assert!(calls.get() == 1);
  assert!(count(&log) == 2 && at(&log, 0) == Some(Ev::Next(v)) && at(&log, 1) == Some(Ev::Complete));
}
