//@ props: C14
//@ target: src/ops/future.rs
//@ thorough-subst: [u8; 2] ==> [u8; 4]
//@ thorough-subst: kani::assume(n <= 2) ==> kani::assume(n <= 4)
//@ thorough-subst: kani::unwind(5) ==> kani::unwind(7)
//@ thorough-note: at most 4 items
// to_future, consuming side — src/ops/future.rs ObservableFuture::poll over the REAL channel
use crate::verif_probe::*;
use std::future::Future;
use std::pin::Pin;
use std::task::{Context, Poll};

struct Script { n: usize, items: [u8; 2], fail: Option<u8> }
impl<O: Observer<u8, u8>> Observable<u8, u8, O> for Script {
  type Unsub = ();
  fn actual_subscribe(self, mut observer: O) {
    let mut i = 0;
    while i < self.n { observer.next(self.items[i]); i += 1; }
    match self.fail { Some(e) => observer.error(e), None => observer.complete() }
  }
}

// [C14] for every finite source history (<= 2 items, then complete or error) the future is READY
// on its first poll and resolves to: the single item / the source's error / Empty / MultipleValues
//@ bounded: at most 2 items before the terminal
#[kani::proof]
#[kani::unwind(5)]
fn to_future_resolves_to_documented_outcome() {
  let n: usize = kani::any();
  kani::assume(n <= 2);
  let items: [u8; 2] = kani::any();
  let fail: Option<u8> = if kani::any() { Some(kani::any()) } else { None };
  let mut f = ObservableFuture::new(Script { n, items, fail });
  let mut cx = Context::from_waker(futures::task::noop_waker_ref());
  match Pin::new(&mut f).poll(&mut cx) {
    Poll::Pending => panic!("the source has terminated: the future must be ready"),
    Poll::Ready(r) => match (n, fail) {
      (0, None) => assert!(matches!(r, Err(ObservableError::Empty))),
      (1, None) => assert!(matches!(r, Ok(Ok(v)) if v == items[0])),
      (0, Some(e)) => assert!(matches!(r, Ok(Err(x)) if x == e)),
      // items followed by an error: MultipleValues or the error itself are both accepted
      (_, Some(e)) => assert!(matches!(r, Err(ObservableError::MultipleValues)) || matches!(r, Ok(Err(x)) if x == e)),
      _ => assert!(matches!(r, Err(ObservableError::MultipleValues))),
    },
  }
}
