//! VERIFICATION STAND-IN for `smallvec` (Engine K only; never used by the real build).
//! Assumed dependency contract: `SmallVec<[T; N]>` is an ordered growable sequence with the usual
//! push / append / retain / iteration semantics.  Fixed capacity CAP (exceeding it is a harness
//! error, reported by a panic), no reallocation, no byte-wise copies of elements.
pub const CAP: usize = 4;

pub unsafe trait Array {
  type Item;
}
unsafe impl<T, const N: usize> Array for [T; N] {
  type Item = T;
}

pub struct SmallVec<A: Array> {
  len: usize,
  items: [Option<A::Item>; CAP],
}

impl<A: Array> Default for SmallVec<A> {
  fn default() -> Self {
    SmallVec { len: 0, items: [None, None, None, None] }
  }
}

pub struct Iter<'a, T> {
  inner: std::slice::Iter<'a, Option<T>>,
}
impl<'a, T> Iterator for Iter<'a, T> {
  type Item = &'a T;
  fn next(&mut self) -> Option<&'a T> {
    match self.inner.next() {
      Some(Some(x)) => Some(x),
      _ => None,
    }
  }
}
pub struct IterMut<'a, T> {
  inner: std::slice::IterMut<'a, Option<T>>,
}
impl<'a, T> Iterator for IterMut<'a, T> {
  type Item = &'a mut T;
  fn next(&mut self) -> Option<&'a mut T> {
    match self.inner.next() {
      Some(Some(x)) => Some(x),
      _ => None,
    }
  }
}
pub struct IntoIter<T> {
  pos: usize,
  len: usize,
  items: [Option<T>; CAP],
}
impl<T> Iterator for IntoIter<T> {
  type Item = T;
  fn next(&mut self) -> Option<T> {
    if self.pos < self.len {
      let v = self.items[self.pos].take();
      self.pos += 1;
      v
    } else {
      None
    }
  }
}

impl<A: Array> SmallVec<A> {
  pub fn new() -> Self {
    Self::default()
  }
  pub fn push(&mut self, v: A::Item) {
    assert!(self.len < CAP, "smallvec stand-in: capacity exceeded (harness error)");
    self.items[self.len] = Some(v);
    self.len += 1;
  }
  pub fn append<B: Array<Item = A::Item>>(&mut self, other: &mut SmallVec<B>) {
    let n = other.len;
    let mut i = 0;
    while i < n {
      let v = other.items[i].take().unwrap();
      self.push(v);
      i += 1;
    }
    other.len = 0;
  }
  pub fn retain<F: FnMut(&mut A::Item) -> bool>(&mut self, mut f: F) {
    let n = self.len;
    let mut j = 0;
    let mut i = 0;
    while i < n {
      let mut v = self.items[i].take().unwrap();
      if f(&mut v) {
        self.items[j] = Some(v);
        j += 1;
      }
      i += 1;
    }
    self.len = j;
  }
  pub fn len(&self) -> usize {
    self.len
  }
  pub fn is_empty(&self) -> bool {
    self.len == 0
  }
  pub fn iter(&self) -> Iter<'_, A::Item> {
    Iter { inner: self.items[..self.len].iter() }
  }
  pub fn iter_mut(&mut self) -> IterMut<'_, A::Item> {
    let n = self.len;
    IterMut { inner: self.items[..n].iter_mut() }
  }
}

impl<A: Array> IntoIterator for SmallVec<A> {
  type Item = A::Item;
  type IntoIter = IntoIter<A::Item>;
  fn into_iter(self) -> Self::IntoIter {
    IntoIter { pos: 0, len: self.len, items: self.items }
  }
}
impl<'a, A: Array> IntoIterator for &'a SmallVec<A> {
  type Item = &'a A::Item;
  type IntoIter = Iter<'a, A::Item>;
  fn into_iter(self) -> Self::IntoIter {
    self.iter()
  }
}
impl<'a, A: Array> IntoIterator for &'a mut SmallVec<A> {
  type Item = &'a mut A::Item;
  type IntoIter = IterMut<'a, A::Item>;
  fn into_iter(self) -> Self::IntoIter {
    self.iter_mut()
  }
}
