//@ props: C05,C13,C18
//@ target: src/ops/merge_all.rs
// higher-order builders (src/observable.rs): merge_all, concat_all, flatten, flat_map, concat_map
// and their _threads forms.  (Verus 0.2026.09.13 panics on these default methods — where-clauses
// that bound the trait's own parameter by the trait, notes/not-feasible/ — hence Engine K.)
// Loop-free: the builders only construct the operator value; its fields are read back.
use std::convert::Infallible;

// [C05,C13,C18] concat = limit 1, flatten / flat_map = no limit (usize::MAX), merge_all(n) = n —
// and the thread-safe form of every builder uses the same limit as the local one
#[kani::proof]
fn higher_order_builders_use_the_documented_limit() {
  let n: usize = kani::any();
  let src = || crate::observable::of(crate::observable::of(1u8));
  assert!(src().merge_all(n).concurrent == n);
  assert!(src().merge_all_threads(n).concurrent == n);
  assert!(src().concat_all().concurrent == 1);
  assert!(src().concat_all_threads().concurrent == 1);
  assert!(src().flatten::<u8, Infallible>().concurrent == usize::MAX);
  assert!(src().flatten_threads::<u8, Infallible>().concurrent == usize::MAX);
  let f = |v: u8| crate::observable::of(v);
  assert!(crate::observable::of(1u8).flat_map(f).concurrent == usize::MAX);
  assert!(crate::observable::of(1u8).flat_map_threads(f).concurrent == usize::MAX);
  assert!(crate::observable::of(1u8).concat_map(f).concurrent == 1);
  assert!(crate::observable::of(1u8).concat_map_threads(f).concurrent == 1);
}
