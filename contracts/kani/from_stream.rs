//@ props: C08
//@ target: src/observable/from_stream.rs
// from_stream driver — src/observable/from_stream.rs StreamObserverFuture::poll
// (a `loop` over poll_next with pin-projection: outside Verus)
use crate::verif_probe::*;
use futures::Stream;
use std::pin::Pin;
use std::task::{Context, Poll};
use std::future::Future;

// a scripted stream: step i yields Pending, an item, or the end
#[derive(Clone, Copy)]
enum Step { Pending, Item(u8), End }
struct ScriptStream { steps: [Step; 4], pos: usize }
impl Stream for ScriptStream {
  type Item = u8;
  fn poll_next(mut self: Pin<&mut Self>, _: &mut Context<'_>) -> Poll<Option<u8>> {
    let i = self.pos;
    assert!(i < 4, "script exhausted");
    self.pos = i + 1;
    match self.steps[i] {
      Step::Pending => Poll::Pending,
      Step::Item(v) => Poll::Ready(Some(v)),
      Step::End => Poll::Ready(None),
    }
  }
}
fn any_step() -> Step {
  let k: u8 = kani::any();
  if k == 0 { Step::Pending } else if k == 1 { Step::End } else { Step::Item(kani::any()) }
}

// [C08] one poll of the stream driver over a scripted stream (<= 3 steps before the end): every
// item the stream yields before it pends / ends is relayed, in order, exactly once; the driver
// returns Pending exactly when the stream pends, and completes the observer (once) and resolves
// exactly when the stream ends
//@ bounded: at most 3 stream steps per poll
#[kani::proof]
#[kani::unwind(6)]
fn stream_driver_poll_step() {
  let steps = [any_step(), any_step(), any_step(), Step::End];
  let log = new_log();
  let mut fut = StreamObserverFuture { stream: ScriptStream { steps, pos: 0 }, observer: Some(Probe::new(&log)) };
  let mut cx = Context::from_waker(futures::task::noop_waker_ref());
  let r = Pin::new(&mut fut).poll(&mut cx);
  let l = log.borrow();
  let mut i = 0;
  let mut n = 0;
  let mut ended = false;
  while i < 4 {
    match steps[i] {
      Step::Item(v) => { assert!(l.ev[n] == Some(Ev::Next(v))); n += 1; }
      Step::Pending => break,
      Step::End => { ended = true; break; }
    }
    i += 1;
  }
  if ended {
    assert!(r.is_ready());
    assert!(l.n == n + 1 && l.ev[n] == Some(Ev::Complete));
    assert!(fut.observer.is_none());
  } else {
    assert!(r.is_pending());
    assert!(l.n == n);
    assert!(fut.observer.is_some());
  }
}

// a stream that is ready with `len` consecutive items (value = index) and then ends
struct Burst { len: u8, pos: u8 }
impl Stream for Burst {
  type Item = u8;
  fn poll_next(mut self: Pin<&mut Self>, _: &mut Context<'_>) -> Poll<Option<u8>> {
    if self.pos < self.len { let v = self.pos; self.pos += 1; Poll::Ready(Some(v)) } else { Poll::Ready(None) }
  }
}
struct Counter { n: std::rc::Rc<std::cell::Cell<u16>>, in_order: std::rc::Rc<std::cell::Cell<bool>>, done: std::rc::Rc<std::cell::Cell<u8>> }
impl Observer<u8, std::convert::Infallible> for Counter {
  fn next(&mut self, v: u8) { if v as u16 != self.n.get() { self.in_order.set(false); } self.n.set(self.n.get() + 1); }
  fn error(self, e: std::convert::Infallible) { match e {} }
  fn complete(self) { self.done.set(self.done.get() + 1); }
  fn is_finished(&self) -> bool { false }
}

// [C08] a long burst of ready items (up to 40) is relayed completely, in order, in ONE poll, and the
// driver then completes the observer and resolves — it never parks itself on a stream that is ready
//@ bounded: a burst of at most 40 ready items
#[kani::proof]
#[kani::unwind(43)]
fn stream_driver_relays_a_long_ready_burst_completely() {
  let len: u8 = kani::any();
  kani::assume(len <= 40);
  let n = std::rc::Rc::new(std::cell::Cell::new(0u16));
  let ok = std::rc::Rc::new(std::cell::Cell::new(true));
  let done = std::rc::Rc::new(std::cell::Cell::new(0u8));
  let mut fut = StreamObserverFuture { stream: Burst { len, pos: 0 }, observer: Some(Counter { n: n.clone(), in_order: ok.clone(), done: done.clone() }) };
  let mut cx = Context::from_waker(futures::task::noop_waker_ref());
  let r = Pin::new(&mut fut).poll(&mut cx);
  assert!(r.is_ready());
  assert!(n.get() == len as u16 && ok.get() && done.get() == 1);
}
