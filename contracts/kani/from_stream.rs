//@ props: C08
//@ target: src/observable/from_stream.rs
// from_stream driver — src/observable/from_stream.rs StreamObserverFuture::poll
// (a `loop` over poll_next with pin-projection: outside Verus)
use crate::verif_probe::*;
use futures::Stream;
use std::pin::Pin;
use std::task::{Context, Poll};
use std::future::Future;

// a scripted stream: step i yields Pending, an item, or the end
#[derive(Clone, Copy)]
enum Step { Pending, Item(u8), End }
struct ScriptStream { steps: [Step; 4], pos: usize }
impl Stream for ScriptStream {
  type Item = u8;
  fn poll_next(mut self: Pin<&mut Self>, _: &mut Context<'_>) -> Poll<Option<u8>> {
    let i = self.pos;
    assert!(i < 4, "script exhausted");
    self.pos = i + 1;
    match self.steps[i] {
      Step::Pending => Poll::Pending,
      Step::Item(v) => Poll::Ready(Some(v)),
      Step::End => Poll::Ready(None),
    }
  }
}
fn any_step() -> Step {
  let k: u8 = kani::any();
  if k == 0 { Step::Pending } else if k == 1 { Step::End } else { Step::Item(kani::any()) }
}

// [C08] one poll of the stream driver over a scripted stream (<= 3 steps before the end): every
// item the stream yields before it pends / ends is relayed, in order, exactly once; the driver
// returns Pending exactly when the stream pends, and completes the observer (once) and resolves
// exactly when the stream ends
//@ bounded: at most 3 stream steps per poll
#[kani::proof]
#[kani::unwind(6)]
fn stream_driver_poll_step() {
  let steps = [any_step(), any_step(), any_step(), Step::End];
  let log = new_log();
  let mut fut = StreamObserverFuture { stream: ScriptStream { steps, pos: 0 }, observer: Some(Probe::new(&log)) };
  let mut cx = Context::from_waker(futures::task::noop_waker_ref());
  let r = Pin::new(&mut fut).poll(&mut cx);
  let l = log.borrow();
  let mut i = 0;
  let mut n = 0;
  let mut ended = false;
  while i < 4 {
    match steps[i] {
      Step::Item(v) => { assert!(l.ev[n] == Some(Ev::Next(v))); n += 1; }
      Step::Pending => break,
      Step::End => { ended = true; break; }
    }
    i += 1;
  }
  if ended {
    assert!(r.is_ready());
    assert!(l.n == n + 1 && l.ev[n] == Some(Ev::Complete));
    assert!(fut.observer.is_none());
  } else {
    assert!(r.is_pending());
    assert!(l.n == n);
    assert!(fut.observer.is_some());
  }
}
