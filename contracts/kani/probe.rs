// Shared by all Engine-K harness modules: an executable recorder (the `records()` observer of
// the Verus prelude, made concrete).  Logs up to CAP notifications into a shared cell.
use std::cell::RefCell;
use std::rc::Rc;

#[derive(Clone, Copy, PartialEq, Eq, Debug)]
pub enum Ev { Next(u8), Error(u8), Complete }

pub const CAP: usize = 6;
pub struct Log { pub n: usize, pub ev: [Option<Ev>; CAP] }
impl Default for Log { fn default() -> Self { Log { n: 0, ev: [None; CAP] } } }
pub type LogRc = Rc<RefCell<Log>>;
pub fn new_log() -> LogRc { Rc::new(RefCell::new(Log::default())) }

pub struct Probe { pub log: LogRc, pub finished: bool, pub finish_after: usize }
impl Probe {
  pub fn new(log: &LogRc) -> Self { Probe { log: log.clone(), finished: false, finish_after: usize::MAX } }
  fn push(&self, e: Ev) {
    let mut l = self.log.borrow_mut();
    let n = l.n;
    if n < CAP { l.ev[n] = Some(e); }
    l.n = n + 1;
  }
}
pub trait ErrCode { fn code(&self) -> u8; }
impl ErrCode for u8 { fn code(&self) -> u8 { *self } }
impl ErrCode for () { fn code(&self) -> u8 { 0 } }
impl ErrCode for std::convert::Infallible { fn code(&self) -> u8 { 0 } }
// items are logged through a one-byte code (identity for u8, 0/1 for bool, low byte for usize)
pub trait ItemCode { fn code(&self) -> u8; }
impl ItemCode for u8 { fn code(&self) -> u8 { *self } }
impl ItemCode for bool { fn code(&self) -> u8 { *self as u8 } }
impl ItemCode for usize { fn code(&self) -> u8 { *self as u8 } }
impl ItemCode for () { fn code(&self) -> u8 { 0 } }
impl<I: ItemCode, E: ErrCode> crate::observer::Observer<I, E> for Probe {
  fn next(&mut self, v: I) { self.push(Ev::Next(v.code())) }
  fn error(self, e: E) { self.push(Ev::Error(e.code())) }
  fn complete(self) { self.push(Ev::Complete) }
  fn is_finished(&self) -> bool { self.finished || self.log.borrow().n >= self.finish_after }
}
pub fn count(l: &LogRc) -> usize { l.borrow().n }
pub fn at(l: &LogRc, i: usize) -> Option<Ev> { l.borrow().ev[i] }
