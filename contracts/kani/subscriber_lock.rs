//@ props: C02,C06,C17
//@ target: src/subscriber.rs
// Lock-scope protocol obligation on the thread-safe subscription cell (src/subscriber.rs
// SubscriberThreads over src/observer.rs impl_rc_observer!(MutArc)): the observer callback runs
// WHILE the cell's lock is held, so that `unsubscribe()` / `is_closed()` on another handle (which take
// the same lock) are ordered against an emission in flight — `is_closed() == true` can then never be
// followed by a delivery, and `unsubscribe()` cannot return while a callback is still running.
// Sequential check (no threads in Kani): the probe looks at the lock of its own cell from inside its
// callback, through the hook `MutArc::verif_is_locked` (cfg rxrust_verif).
use std::sync::{Arc, Mutex};
use std::sync::atomic::{AtomicU8, Ordering};

type Slot = Arc<Mutex<Option<MutArc<Option<CellProbe>>>>>;
struct CellProbe { me: Slot, seen: Arc<AtomicU8>, got: Arc<AtomicU8> }
impl Observer<u8, u8> for CellProbe {
  fn next(&mut self, v: u8) {
    let g = self.me.lock().unwrap();
    if let Some(c) = g.as_ref() {
      self.seen.store(if c.verif_is_locked() { 1 } else { 2 }, Ordering::SeqCst);
    }
    self.got.store(v, Ordering::SeqCst);
  }
  fn error(self, _: u8) {}
  fn complete(self) {}
  fn is_finished(&self) -> bool { false }
}

// [C02,C06,C17] an item handed to an open thread-safe subscriber reaches the observer while the
// subscription cell is locked; the lock is free again afterwards; the subscription is still open
#[kani::proof]
fn subscriber_threads_delivers_under_the_cell_lock() {
  let me: Slot = Arc::new(Mutex::new(None));
  let seen = Arc::new(AtomicU8::new(0));
  let got = Arc::new(AtomicU8::new(0));
  let mut s = SubscriberThreads::new(Some(CellProbe { me: me.clone(), seen: seen.clone(), got: got.clone() }));
  *me.lock().unwrap() = Some(s.0.clone());
  let v: u8 = kani::any();
  s.next(v);
  assert!(got.load(Ordering::SeqCst) == v);
  assert!(seen.load(Ordering::SeqCst) == 1);
  assert!(!s.0.verif_is_locked());
  assert!(!s.is_closed());
}
