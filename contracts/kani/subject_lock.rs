//@ props: C06
//@ target: src/subject.rs
// Lock-scope protocol obligation on the thread-safe subject ("broadcast iterates the live list while
// holding it", src/subject.rs impl_observer_methods! next): a subscriber callback runs WHILE the
// live list's lock is held, so that a concurrent emission / terminal / unsubscribe through another
// clone waits for the emission in flight instead of finding an empty or missing list.
// Sequential check with ONE subscriber (two exceed CBMC's budget); hook `MutArc::verif_is_locked`.
use std::sync::Arc;
use std::sync::atomic::{AtomicU8, Ordering};

struct ListProbe { list: PublisherVecThreads<u8, u8>, seen: Arc<AtomicU8>, got: Arc<AtomicU8> }
impl Observer<u8, u8> for ListProbe {
  fn next(&mut self, v: u8) {
    self.seen.store(if self.list.verif_is_locked() { 1 } else { 2 }, Ordering::SeqCst);
    self.got.store(v, Ordering::SeqCst);
  }
  fn error(self, _: u8) {}
  fn complete(self) {}
  fn is_finished(&self) -> bool { false }
}

// [C06] the item reaches the subscriber while the live list is locked; afterwards the lock is free
// and the subject is neither finished nor empty
//@ bounded: exactly one subscriber
#[kani::proof]
#[kani::unwind(4)]
fn subject_threads_broadcasts_under_the_list_lock() {
  let seen = Arc::new(AtomicU8::new(0));
  let got = Arc::new(AtomicU8::new(0));
  let mut subject = SubjectThreads::<u8, u8>::default();
  let _u = subject.clone().actual_subscribe(ListProbe { list: subject.observers.clone(), seen: seen.clone(), got: got.clone() });
  let v: u8 = kani::any();
  subject.next(v);
  assert!(got.load(Ordering::SeqCst) == v);
  assert!(seen.load(Ordering::SeqCst) == 1);
  assert!(!subject.observers.verif_is_locked());
  assert!(!subject.is_finished());
  assert!(!subject.is_empty());
}

