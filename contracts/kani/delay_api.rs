//@ props: C07,C08,C13
//@ target: src/ops/delay.rs
// C07 at the API level (independent of helper functions and of how the operators are written): the
// real `delay_subscription` / `subscribe_on` operators are run on a
// RECORDING scheduler — a hand-written `Scheduler` that notes the delay it is asked for and then
// runs the task at once (i.e. "the timer fires immediately, tasks run in submission order") — with a
// symbolic source history and a symbolic delay (nanosecond resolution).  Obligations: every task is
// submitted with EXACTLY the configured delay (observe_on / subscribe_on: none); with tasks run in
// order the subscriber sees exactly the source's sequence.
use crate::verif_probe::*;
use std::cell::RefCell;
use std::future::Future;
use std::pin::Pin;
use std::rc::Rc;
use std::task::{Context, Poll};
use std::time::Duration;

#[derive(Clone)]
struct RecSched { delays: Rc<RefCell<(usize, [Option<Duration>; 6])>> }
impl RecSched {
  fn new() -> Self { RecSched { delays: Rc::new(RefCell::new((0, [None; 6]))) } }
}
impl<T> Scheduler<T> for RecSched
where
  T: Future + Unpin,
{
  fn schedule(&self, mut task: T, delay: Option<Duration>) -> TaskHandle<T::Output> {
    {
      let mut d = self.delays.borrow_mut();
      let n = d.0;
      assert!(n < 6);
      d.1[n] = delay;
      d.0 = n + 1;
    }
    let mut cx = Context::from_waker(futures::task::noop_waker_ref());
    match Pin::new(&mut task).poll(&mut cx) {
      Poll::Ready(v) => TaskHandle::value_handle(v),
      Poll::Pending => panic!("one-shot tasks are ready on their first poll"),
    }
  }
}

#[derive(Clone, Copy, PartialEq)]
enum DTerm { Open, Complete, Error(u8) }
#[derive(Clone, Copy)]
struct DScript { n: usize, items: [u8; 2], term: DTerm }
impl<O: Observer<u8, u8>> Observable<u8, u8, O> for DScript {
  type Unsub = ();
  fn actual_subscribe(self, mut observer: O) {
    let mut i = 0;
    while i < self.n { observer.next(self.items[i]); i += 1; }
    match self.term { DTerm::Open => {}, DTerm::Complete => observer.complete(), DTerm::Error(e) => observer.error(e) }
  }
}
impl ObservableExt<u8, u8> for DScript {}
fn any_dscript() -> DScript {
  let n: usize = kani::any();
  kani::assume(n <= 2);
  let t: u8 = kani::any();
  let term = if t == 0 { DTerm::Open } else if t == 1 { DTerm::Complete } else { DTerm::Error(kani::any()) };
  DScript { n, items: kani::any(), term }
}
fn expect_history(log: &LogRc, s: &DScript) {
  let mut i = 0;
  while i < s.n { assert!(at(log, i) == Some(Ev::Next(s.items[i]))); i += 1; }
  match s.term {
    DTerm::Open => assert!(count(log) == s.n),
    DTerm::Complete => assert!(count(log) == s.n + 1 && at(log, s.n) == Some(Ev::Complete)),
    DTerm::Error(e) => assert!(count(log) == s.n + 1 && at(log, s.n) == Some(Ev::Error(e))),
  }
}
fn any_duration() -> Duration {
  let secs: u8 = kani::any();
  let nanos: u32 = kani::any();
  kani::assume(nanos < 1_000_000_000);
  Duration::new(secs as u64, nanos)
}

// (the same harness for `delay` / `observe_on` does not finish in CBMC even for a single notification —
// their composite subscription of boxed task handles; kept under notes/not-feasible/kani_delay_api_full.rs.txt)

// [C07] delay_subscription(d) / subscribe_on: the subscription itself is ONE task, with Some(d) / no delay
//@ bounded: at most 2 items before the terminal
#[kani::proof]
#[kani::unwind(8)]
fn subscription_movers_schedule_one_task() {
  let s = any_dscript();
  let d = any_duration();
  let sched = RecSched::new();
  let log = new_log();
  if kani::any() {
    let _u = s.delay_subscription(d, sched.clone()).actual_subscribe(Probe::new(&log));
    assert!(sched.delays.borrow().0 == 1 && sched.delays.borrow().1[0] == Some(d));
  } else {
    let _u = s.subscribe_on(sched.clone()).actual_subscribe(Probe::new(&log));
    assert!(sched.delays.borrow().0 == 1 && sched.delays.borrow().1[0].is_none());
  }
  expect_history(&log, &s);
}

// ---- timer / interval at the API level, on a virtual clock ------------------------------------------
static mut VCLOCK_NS: u64 = 1_000_000_000;
fn vclock_stub() -> std::time::Instant {
  unsafe {
    let secs = (VCLOCK_NS / 1_000_000_000) as i64;
    let nanos = (VCLOCK_NS % 1_000_000_000) as u32;
    // std::time::Instant is a (seconds: i64, nanoseconds: u32 < 1e9) pair on unix
    std::mem::transmute::<(i64, u32), std::time::Instant>((secs, nanos))
  }
}

// [C08] timer(item, d): however much time passes between BUILDING the observable and subscribing it,
// the one task is submitted with exactly Some(d) (the due time is "d after subscription"), and when
// it runs the item and the completion are delivered
#[kani::proof]
#[kani::unwind(8)]
#[kani::stub(std::time::Instant::now, vclock_stub)]
fn timer_counts_its_delay_from_subscription() {
  let d = any_duration();
  let item: u8 = kani::any();
  let sched = RecSched::new();
  let log = new_log();
  let t = crate::observable::timer(item, d, sched.clone());
  let gap: u32 = kani::any();
  unsafe { VCLOCK_NS += gap as u64; }                 // time passes before the subscription
  let _u = t.actual_subscribe(Probe::new(&log));
  assert!(sched.delays.borrow().0 == 1 && sched.delays.borrow().1[0] == Some(d));
  assert!(count(&log) == 2 && at(&log, 0) == Some(Ev::Next(item)) && at(&log, 1) == Some(Ev::Complete));
}

// [C07,C13] delay_subscription(d): the delay is counted from the SUBSCRIPTION, not from the moment the
// pipeline was built — however much time passes in between, the one subscribing task is submitted with
// exactly Some(d), and a clone subscribed still later asks for exactly Some(d) again
//@ bounded: at most 2 items before the terminal
#[kani::proof]
#[kani::unwind(8)]
#[kani::stub(std::time::Instant::now, vclock_stub)]
fn delay_subscription_counts_its_delay_from_subscription() {
  let s = any_dscript();
  let d = any_duration();
  let sched = RecSched::new();
  let built = s.delay_subscription(d, sched.clone());
  let copy = built.clone();
  let gap: u32 = kani::any();
  unsafe { VCLOCK_NS += gap as u64; }                 // time passes before the first subscription
  let log1 = new_log();
  let _u1 = built.actual_subscribe(Probe::new(&log1));
  assert!(sched.delays.borrow().0 == 1 && sched.delays.borrow().1[0] == Some(d));
  let gap2: u32 = kani::any();
  unsafe { VCLOCK_NS += gap2 as u64; }                // ... and more before the second
  let log2 = new_log();
  let _u2 = copy.actual_subscribe(Probe::new(&log2));
  assert!(sched.delays.borrow().0 == 2 && sched.delays.borrow().1[1] == Some(d));
  expect_history(&log1, &s);
  expect_history(&log2, &s);
}

// [C08] timer_at(item, at): the one task is submitted with a delay that is NOT SHORTER than the time that
// remains until `at` (the item is never emitted before the due time), for every remaining time with
// nanosecond resolution — in particular just below a whole second / a whole millisecond
fn vinstant_after(d: Duration) -> std::time::Instant {
  unsafe {
    let total = VCLOCK_NS as u128 + d.as_nanos();
    let secs = (total / 1_000_000_000) as i64;
    let nanos = (total % 1_000_000_000) as u32;
    std::mem::transmute::<(i64, u32), std::time::Instant>((secs, nanos))
  }
}
#[kani::proof]
#[kani::unwind(8)]
#[kani::stub(std::time::Instant::now, vclock_stub)]
fn timer_at_is_never_early() {
  let d = any_duration();
  let item: u8 = kani::any();
  let sched = RecSched::new();
  let log = new_log();
  let at = vinstant_after(d);
  let _u = crate::observable::timer_at(item, at, sched.clone()).actual_subscribe(Probe::new(&log));
  let rec = sched.delays.borrow();
  assert!(rec.0 == 1);
  match rec.1[0] {
    Some(asked) => assert!(asked >= d),
    None => assert!(d == Duration::default()),
  }
  assert!(count(&log) == 2 && at_is(&log, 0, Ev::Next(item)) && at_is(&log, 1, Ev::Complete));
}
fn at_is(l: &LogRc, i: usize, e: Ev) -> bool { at(l, i) == Some(e) }
