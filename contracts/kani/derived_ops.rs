//@ props: C03,C16
//@ target: src/observable.rs
// derived operators whose builders cast closures / nested fns to fn pointers (outside Verus):
// all, ignore_elements, count, sum, min, max, reduce, element_at, first_or, last_or — checked
// end to end on the real code against their documented list semantics, for every input of up to
// 3 symbolic items (from_iter source, recording observer).
use crate::verif_probe::*;
use std::convert::Infallible;


fn any_input() -> ([u8; 3], usize) {
  let n: usize = kani::any();
  kani::assume(n <= 3);
  (kani::any(), n)
}

// [C03,C16] all(p): false as soon as one item fails p (and the stream ends there), else true at completion
//@ bounded: at most 3 items
#[kani::proof]
#[kani::unwind(6)]
fn all_matches_list_semantics() {
  let (items, n) = any_input();
  let t: u8 = kani::any();
  let log = new_log();
  from_iter(items.into_iter().take(n)).all(move |v| v < t).actual_subscribe(Probe::new(&log));
  let mut ok = true;
  let mut i = 0;
  while i < n { if !(items[i] < t) { ok = false; } i += 1; }
  assert!(count(&log) == 2 && at(&log, 0) == Some(Ev::Next(ok as u8)) && at(&log, 1) == Some(Ev::Complete));
}

// [C03] ignore_elements: no item, only the terminal
//@ bounded: at most 3 items
#[kani::proof]
#[kani::unwind(6)]
fn ignore_elements_emits_only_terminal() {
  let (items, n) = any_input();
  let log = new_log();
  from_iter(items.into_iter().take(n)).ignore_elements().actual_subscribe(Probe::new(&log));
  assert!(count(&log) == 1 && at(&log, 0) == Some(Ev::Complete));
}

// [C03] count / sum (wrapping is excluded: u8 items widened) / min / max over the whole input;
// min and max of an empty input emit nothing
//@ bounded: at most 3 items
#[kani::proof]
#[kani::unwind(6)]
fn count_sum_min_max_match_list_semantics() {
  let (items, n) = any_input();
  let which: u8 = kani::any();
  let log = new_log();
  let mut mn = 255u8; let mut mx = 0u8; let mut sum = 0usize;
  let mut i = 0;
  while i < n { if items[i] < mn { mn = items[i]; } if items[i] > mx { mx = items[i]; } sum += items[i] as usize; i += 1; }
  if which == 0 {
    from_iter(items.into_iter().take(n)).count().actual_subscribe(Probe::new(&log));
    assert!(count(&log) == 2 && at(&log, 0) == Some(Ev::Next(n as u8)) && at(&log, 1) == Some(Ev::Complete));
  } else if which == 1 {
    from_iter(items.into_iter().take(n)).map(|v| v as usize).sum().actual_subscribe(Probe::new(&log));
    assert!(count(&log) == 2 && at(&log, 0) == Some(Ev::Next(sum as u8)) && at(&log, 1) == Some(Ev::Complete));
  } else if which == 2 {
    from_iter(items.into_iter().take(n)).min().actual_subscribe(Probe::new(&log));
    if n == 0 { assert!(count(&log) == 1 && at(&log, 0) == Some(Ev::Complete)); }
    else { assert!(count(&log) == 2 && at(&log, 0) == Some(Ev::Next(mn)) && at(&log, 1) == Some(Ev::Complete)); }
  } else {
    from_iter(items.into_iter().take(n)).max().actual_subscribe(Probe::new(&log));
    if n == 0 { assert!(count(&log) == 1 && at(&log, 0) == Some(Ev::Complete)); }
    else { assert!(count(&log) == 2 && at(&log, 0) == Some(Ev::Next(mx)) && at(&log, 1) == Some(Ev::Complete)); }
  }
}

// [C03,C16] element_at(k) / first_or(d) / last_or(d)
//@ bounded: at most 3 items
#[kani::proof]
#[kani::unwind(6)]
fn element_at_first_or_last_or_match_list_semantics() {
  let (items, n) = any_input();
  let which: u8 = kani::any();
  let k: usize = kani::any();
  kani::assume(k <= 4);
  let d: u8 = kani::any();
  let log = new_log();
  if which == 0 {
    from_iter(items.into_iter().take(n)).element_at(k).actual_subscribe(Probe::new(&log));
    if k < n { assert!(count(&log) == 2 && at(&log, 0) == Some(Ev::Next(items[k])) && at(&log, 1) == Some(Ev::Complete)); }
    else { assert!(count(&log) == 1 && at(&log, 0) == Some(Ev::Complete)); }
  } else if which == 1 {
    from_iter(items.into_iter().take(n)).first_or(d).actual_subscribe(Probe::new(&log));
    let e = if n > 0 { items[0] } else { d };
    assert!(count(&log) == 2 && at(&log, 0) == Some(Ev::Next(e)) && at(&log, 1) == Some(Ev::Complete));
  } else {
    from_iter(items.into_iter().take(n)).last_or(d).actual_subscribe(Probe::new(&log));
    let e = if n > 0 { items[n - 1] } else { d };
    assert!(count(&log) == 2 && at(&log, 0) == Some(Ev::Next(e)) && at(&log, 1) == Some(Ev::Complete));
  }
}

// [C03] reduce_initial(init, f): f folded over the input, emitted once at completion (init if empty)
//@ bounded: at most 3 items
#[kani::proof]
#[kani::unwind(6)]
fn reduce_initial_matches_fold() {
  let (items, n) = any_input();
  let init: u8 = kani::any();
  let log = new_log();
  from_iter(items.into_iter().take(n)).reduce_initial(init, |a: u8, v: u8| a.wrapping_mul(3).wrapping_add(v)).actual_subscribe(Probe::new(&log));
  let mut acc = init;
  let mut i = 0;
  while i < n { acc = acc.wrapping_mul(3).wrapping_add(items[i]); i += 1; }
  assert!(count(&log) == 2 && at(&log, 0) == Some(Ev::Next(acc)) && at(&log, 1) == Some(Ev::Complete));
}
