//@ props: C03,C16
//@ target: src/observable.rs
//@ thorough-subst: [u8; 3] ==> [u8; 6]
//@ thorough-subst: kani::assume(n <= 3) ==> kani::assume(n <= 6)
//@ thorough-subst: kani::unwind(6) ==> kani::unwind(9)
//@ thorough-subst: kani::assume(k <= 4) ==> kani::assume(k <= 7)
//@ thorough-note: at most 6 items
// derived operators whose builders cast closures / nested fns to fn pointers (outside Verus):
// all, ignore_elements, count, sum, min, max, reduce, element_at, first_or, last_or — checked
// end to end on the real code against their documented list semantics, for every input history
// of up to 3 symbolic items followed by ANY terminal (none yet / complete / error).
use crate::verif_probe::*;

#[derive(Clone, Copy, PartialEq)]
enum Term { Open, Complete, Error(u8) }
#[derive(Clone, Copy)]
struct Script { n: usize, items: [u8; 3], term: Term }
impl<O: Observer<u8, u8>> Observable<u8, u8, O> for Script {
  type Unsub = ();
  fn actual_subscribe(self, mut observer: O) {
    let mut i = 0;
    while i < self.n {
      if observer.is_finished() { return; }
      observer.next(self.items[i]);
      i += 1;
    }
    match self.term { Term::Open => {}, Term::Complete => observer.complete(), Term::Error(e) => observer.error(e) }
  }
}
impl ObservableExt<u8, u8> for Script {}
fn any_script() -> Script {
  let n: usize = kani::any();
  kani::assume(n <= 3);
  let t: u8 = kani::any();
  let term = if t == 0 { Term::Open } else if t == 1 { Term::Complete } else { Term::Error(kani::any()) };
  Script { n, items: kani::any(), term }
}
// what an operator that emits one aggregate `v` at completion must deliver for terminal `t`
fn expect_aggregate(log: &LogRc, t: Term, v: Option<u8>) {
  match t {
    Term::Open => assert!(count(log) == 0),
    // an input error is the only terminal: NO aggregate computed from the truncated input
    Term::Error(e) => assert!(count(log) == 1 && at(log, 0) == Some(Ev::Error(e))),
    Term::Complete => match v {
      Some(v) => assert!(count(log) == 2 && at(log, 0) == Some(Ev::Next(v)) && at(log, 1) == Some(Ev::Complete)),
      None => assert!(count(log) == 1 && at(log, 0) == Some(Ev::Complete)),
    },
  }
}

// [C03,C16] all(p): `false` + completion at the FIRST item failing p, whatever follows it (more
// items, an error, nothing yet); otherwise `true` at completion, the bare error on an error
//@ bounded: at most 3 items
#[kani::proof]
#[kani::unwind(6)]
fn all_matches_list_semantics() {
  let s = any_script();
  let t: u8 = kani::any();
  let log = new_log();
  s.all(move |v| v < t).actual_subscribe(Probe::new(&log));
  let mut fails = false;
  let mut i = 0;
  while i < s.n { if !(s.items[i] < t) { fails = true; } i += 1; }
  if fails { assert!(count(&log) == 2 && at(&log, 0) == Some(Ev::Next(0)) && at(&log, 1) == Some(Ev::Complete)); }
  else { expect_aggregate(&log, s.term, Some(1)); }
}

// [C03] ignore_elements: no item, only the terminal
//@ bounded: at most 3 items
#[kani::proof]
#[kani::unwind(6)]
fn ignore_elements_emits_only_terminal() {
  let s = any_script();
  let log = new_log();
  s.ignore_elements().actual_subscribe(Probe::new(&log));
  expect_aggregate(&log, s.term, None);
}

// [C03] count / sum / min / max over the whole input, emitted once at completion; nothing with an error
//@ bounded: at most 3 items
#[kani::proof]
#[kani::unwind(6)]
fn count_sum_min_max_match_list_semantics() {
  let s = any_script();
  let which: u8 = kani::any();
  let log = new_log();
  let mut mn = 255u8; let mut mx = 0u8; let mut sum = 0usize;
  let mut i = 0;
  while i < s.n { if s.items[i] < mn { mn = s.items[i]; } if s.items[i] > mx { mx = s.items[i]; } sum += s.items[i] as usize; i += 1; }
  if which == 0 {
    s.count().actual_subscribe(Probe::new(&log));
    expect_aggregate(&log, s.term, Some(s.n as u8));
  } else if which == 1 {
    s.map(|v| v as usize).sum().actual_subscribe(Probe::new(&log));
    expect_aggregate(&log, s.term, Some(sum as u8));
  } else if which == 2 {
    s.min().actual_subscribe(Probe::new(&log));
    expect_aggregate(&log, s.term, if s.n == 0 { None } else { Some(mn) });
  } else {
    s.max().actual_subscribe(Probe::new(&log));
    expect_aggregate(&log, s.term, if s.n == 0 { None } else { Some(mx) });
  }
}

// [C03,C16] element_at(k) / first_or(d) / last_or(d)
//@ bounded: at most 3 items
#[kani::proof]
#[kani::unwind(6)]
fn element_at_first_or_last_or_match_list_semantics() {
  let s = any_script();
  let which: u8 = kani::any();
  let k: usize = kani::any();
  kani::assume(k <= 4);
  let d: u8 = kani::any();
  let log = new_log();
  if which == 0 {
    s.element_at(k).actual_subscribe(Probe::new(&log));
    // the k-th item ends the stream at once, whatever the source does afterwards
    if k < s.n { assert!(count(&log) == 2 && at(&log, 0) == Some(Ev::Next(s.items[k])) && at(&log, 1) == Some(Ev::Complete)); }
    else { expect_aggregate(&log, s.term, None); }
  } else if which == 1 {
    s.first_or(d).actual_subscribe(Probe::new(&log));
    if s.n > 0 { assert!(count(&log) == 2 && at(&log, 0) == Some(Ev::Next(s.items[0])) && at(&log, 1) == Some(Ev::Complete)); }
    else { expect_aggregate(&log, s.term, Some(d)); }
  } else {
    s.last_or(d).actual_subscribe(Probe::new(&log));
    expect_aggregate(&log, s.term, Some(if s.n > 0 { s.items[s.n - 1] } else { d }));
  }
}

// [C03] reduce_initial(init, f): f folded over the input, emitted once at completion (init if empty)
//@ bounded: at most 3 items
#[kani::proof]
#[kani::unwind(6)]
fn reduce_initial_matches_fold() {
  let s = any_script();
  let init: u8 = kani::any();
  let log = new_log();
  s.reduce_initial(init, |a: u8, v: u8| a.wrapping_mul(3).wrapping_add(v)).actual_subscribe(Probe::new(&log));
  let mut acc = init;
  let mut i = 0;
  while i < s.n { acc = acc.wrapping_mul(3).wrapping_add(s.items[i]); i += 1; }
  expect_aggregate(&log, s.term, Some(acc));
}

// [C03] average: the arithmetic mean of the whole input, emitted once at completion; nothing for an
// empty input, nothing but the error with an error (the mean is checked up to 1e-6: floats)
//@ bounded: at most 3 items (u8 values as f64)
#[kani::proof]
#[kani::unwind(6)]
fn average_matches_mean() {
  let s = any_script();
  let log = new_log();
  let mut sum = 0.0f64;
  let mut i = 0;
  while i < s.n { sum += s.items[i] as f64; i += 1; }
  let n = s.n as f64;
  s.map(|v| v as f64).average()
    .map(move |a: f64| { let d = a * n - sum; if d < 1e-6 && d > -1e-6 { 1u8 } else { 0u8 } })
    .actual_subscribe(Probe::new(&log));
  expect_aggregate(&log, s.term, if s.n == 0 { None } else { Some(1) });
}
