//@ props: C14
//@ target: src/ops/stream.rs
//@ thorough-subst: [u8; 2] ==> [u8; 4]
//@ thorough-subst: kani::assume(n <= 2) ==> kani::assume(n <= 4)
//@ thorough-subst: kani::unwind(5) ==> kani::unwind(7)
//@ thorough-note: at most 4 items
// to_stream, consuming side — src/ops/stream.rs ObservableStream::poll_next over the REAL
// futures-rs unbounded channel (Pin, RefCell, ready!: outside Verus)
use crate::verif_probe::*;
use futures::Stream;
use std::pin::Pin;
use std::task::{Context, Poll};

// a source that replays a symbolic finite history at subscription: n <= 2 items, then a terminal
struct Script { n: usize, items: [u8; 2], fail: Option<u8> }
impl<O: Observer<u8, u8>> Observable<u8, u8, O> for Script {
  type Unsub = ();
  fn actual_subscribe(self, mut observer: O) {
    let mut i = 0;
    while i < self.n { observer.next(self.items[i]); i += 1; }
    match self.fail { Some(e) => observer.error(e), None => observer.complete() }
  }
}

// [C14] for every finite source history (<= 2 items, then complete or error) the stream yields
// every item and the error, in order, and then ENDS (Ready(None)) instead of staying pending
//@ bounded: at most 2 items before the terminal
#[kani::proof]
#[kani::unwind(5)]
fn to_stream_yields_history_then_ends() {
  let n: usize = kani::any();
  kani::assume(n <= 2);
  let items: [u8; 2] = kani::any();
  let fail: Option<u8> = if kani::any() { Some(kani::any()) } else { None };
  let mut s = ObservableStream::new(Script { n, items, fail });
  let mut cx = Context::from_waker(futures::task::noop_waker_ref());
  let mut i = 0;
  while i < n {
    match Pin::new(&mut s).poll_next(&mut cx) {
      Poll::Ready(Some(Ok(v))) => assert!(v == items[i]),
      _ => panic!("item expected"),
    }
    i += 1;
  }
  if let Some(e) = fail {
    match Pin::new(&mut s).poll_next(&mut cx) {
      Poll::Ready(Some(Err(x))) => assert!(x == e),
      _ => panic!("the error must be yielded"),
    }
  }
  match Pin::new(&mut s).poll_next(&mut cx) {
    Poll::Ready(None) => {}
    _ => panic!("the stream must end once the source has terminated"),
  }
}

