//@ props: C06,C11
//@ target: src/subject.rs
// Engine K on the real Subject (one subscriber; two or more subscribers exceed CBMC's budget, see
// notes/not-feasible).  Independent of the loop anchors the Verus unit needs.
use crate::verif_probe::*;

// [C06,C11] a subscriber that joined since the last emission (still waiting in the chamber) is
// counted by len() / is_empty(); once it has unsubscribed the subject is empty again
//@ bounded: exactly one subscriber, no emission
#[kani::proof]
#[kani::unwind(4)]
fn subject_counts_waiting_subscriber() {
  let log = new_log();
  let subject = Subject::<u8, u8>::default();
  assert!(subject.is_empty());
  let u = subject.clone().actual_subscribe(Probe::new(&log));
  assert!(!subject.is_empty());
  assert!(subject.len() == 1);
  u.unsubscribe();
  assert!(subject.is_empty());
  assert!(subject.len() == 0);
}

// [C06,C11] ... and after an emission moved it into the live list it is still counted
//@ bounded: exactly one subscriber, one emission
#[kani::proof]
#[kani::unwind(4)]
fn subject_counts_loaded_subscriber() {
  let log = new_log();
  let mut subject = Subject::<u8, u8>::default();
  let u = subject.clone().actual_subscribe(Probe::new(&log));
  let v: u8 = kani::any();
  subject.next(v);
  assert!(count(&log) == 1 && at(&log, 0) == Some(Ev::Next(v)));
  assert!(!subject.is_empty());
  assert!(subject.len() == 1);
  u.unsubscribe();
  assert!(subject.is_empty());
}
