//@ props: C08
//@ target: src/observable/from_stream_result.rs
// from_stream_result driver — src/observable/from_stream_result.rs TryStreamObserverFuture::poll
use crate::verif_probe::*;
use futures::Stream;
use std::pin::Pin;
use std::task::{Context, Poll};
use std::future::Future;

#[derive(Clone, Copy)]
enum Step { Pending, Item(u8), Fail(u8), End }
struct ScriptStream { steps: [Step; 4], pos: usize }
impl Stream for ScriptStream {
  type Item = Result<u8, u8>;
  fn poll_next(mut self: Pin<&mut Self>, _: &mut Context<'_>) -> Poll<Option<Result<u8, u8>>> {
    let i = self.pos;
    assert!(i < 4, "script exhausted");
    self.pos = i + 1;
    match self.steps[i] {
      Step::Pending => Poll::Pending,
      Step::Item(v) => Poll::Ready(Some(Ok(v))),
      Step::Fail(e) => Poll::Ready(Some(Err(e))),
      Step::End => Poll::Ready(None),
    }
  }
}
fn any_step() -> Step {
  let k: u8 = kani::any();
  if k == 0 { Step::Pending } else if k == 1 { Step::End } else if k == 2 { Step::Fail(kani::any()) } else { Step::Item(kani::any()) }
}

// [C08] as for from_stream; additionally the first Err item is relayed as the error, it is the
// only terminal, and the driver resolves with it
//@ bounded: at most 3 stream steps per poll
#[kani::proof]
#[kani::unwind(6)]
fn try_stream_driver_poll_step() {
  let steps = [any_step(), any_step(), any_step(), Step::End];
  let log = new_log();
  let mut fut = TryStreamObserverFuture { stream: ScriptStream { steps, pos: 0 }, observer: Some(Probe::new(&log)) };
  let mut cx = Context::from_waker(futures::task::noop_waker_ref());
  let r = Pin::new(&mut fut).poll(&mut cx);
  let l = log.borrow();
  let mut i = 0;
  let mut n = 0;
  let mut terminal: Option<Ev> = None;
  let mut pended = false;
  while i < 4 {
    match steps[i] {
      Step::Item(v) => { assert!(l.ev[n] == Some(Ev::Next(v))); n += 1; }
      Step::Pending => { pended = true; break; }
      Step::Fail(e) => { terminal = Some(Ev::Error(e)); break; }
      Step::End => { terminal = Some(Ev::Complete); break; }
    }
    i += 1;
  }
  if let Some(t) = terminal {
    assert!(r.is_ready());
    assert!(l.n == n + 1 && l.ev[n] == Some(t));
    assert!(fut.observer.is_none());
  } else {
    assert!(pended && r.is_pending());
    assert!(l.n == n);
  }
}
