//@ props: C08
//@ target: src/observable/from_stream_result.rs
// from_stream_result driver — src/observable/from_stream_result.rs TryStreamObserverFuture::poll
use crate::verif_probe::*;
use futures::Stream;
use std::pin::Pin;
use std::task::{Context, Poll};
use std::future::Future;

#[derive(Clone, Copy)]
enum Step { Pending, Item(u8), Fail(u8), End }
struct ScriptStream { steps: [Step; 4], pos: usize }
impl Stream for ScriptStream {
  type Item = Result<u8, u8>;
  fn poll_next(mut self: Pin<&mut Self>, _: &mut Context<'_>) -> Poll<Option<Result<u8, u8>>> {
    let i = self.pos;
    assert!(i < 4, "script exhausted");
    self.pos = i + 1;
    match self.steps[i] {
      Step::Pending => Poll::Pending,
      Step::Item(v) => Poll::Ready(Some(Ok(v))),
      Step::Fail(e) => Poll::Ready(Some(Err(e))),
      Step::End => Poll::Ready(None),
    }
  }
}
fn any_step() -> Step {
  let k: u8 = kani::any();
  if k == 0 { Step::Pending } else if k == 1 { Step::End } else if k == 2 { Step::Fail(kani::any()) } else { Step::Item(kani::any()) }
}

// [C08] as for from_stream; additionally the first Err item is relayed as the error, it is the
// only terminal, and the driver resolves with it
//@ bounded: at most 3 stream steps per poll
#[kani::proof]
#[kani::unwind(6)]
fn try_stream_driver_poll_step() {
  let steps = [any_step(), any_step(), any_step(), Step::End];
  let log = new_log();
  let mut fut = TryStreamObserverFuture { stream: ScriptStream { steps, pos: 0 }, observer: Some(Probe::new(&log)) };
  let mut cx = Context::from_waker(futures::task::noop_waker_ref());
  let r = Pin::new(&mut fut).poll(&mut cx);
  let l = log.borrow();
  let mut i = 0;
  let mut n = 0;
  let mut terminal: Option<Ev> = None;
  let mut pended = false;
  while i < 4 {
    match steps[i] {
      Step::Item(v) => { assert!(l.ev[n] == Some(Ev::Next(v))); n += 1; }
      Step::Pending => { pended = true; break; }
      Step::Fail(e) => { terminal = Some(Ev::Error(e)); break; }
      Step::End => { terminal = Some(Ev::Complete); break; }
    }
    i += 1;
  }
  if let Some(t) = terminal {
    assert!(r.is_ready());
    assert!(l.n == n + 1 && l.ev[n] == Some(t));
    assert!(fut.observer.is_none());
  } else {
    assert!(pended && r.is_pending());
    assert!(l.n == n);
  }
}

// a try-stream that is ready with `len` consecutive Ok items (value = index) and then ends
struct OkBurst { len: u8, pos: u8 }
impl Stream for OkBurst {
  type Item = Result<u8, u8>;
  fn poll_next(mut self: Pin<&mut Self>, _: &mut Context<'_>) -> Poll<Option<Result<u8, u8>>> {
    if self.pos < self.len { let v = self.pos; self.pos += 1; Poll::Ready(Some(Ok(v))) } else { Poll::Ready(None) }
  }
}
struct Counter { n: std::rc::Rc<std::cell::Cell<u16>>, in_order: std::rc::Rc<std::cell::Cell<bool>>, done: std::rc::Rc<std::cell::Cell<u8>> }
impl Observer<u8, u8> for Counter {
  fn next(&mut self, v: u8) { if v as u16 != self.n.get() { self.in_order.set(false); } self.n.set(self.n.get() + 1); }
  fn error(self, _: u8) { self.in_order.set(false); }
  fn complete(self) { self.done.set(self.done.get() + 1); }
  fn is_finished(&self) -> bool { false }
}

// [C08] a long burst of ready Ok items (up to 40) is relayed completely, in order, in one poll; the
// driver then completes the observer and resolves
//@ bounded: a burst of at most 40 ready items
#[kani::proof]
#[kani::unwind(43)]
fn try_stream_driver_relays_a_long_ready_burst_completely() {
  let len: u8 = kani::any();
  kani::assume(len <= 40);
  let n = std::rc::Rc::new(std::cell::Cell::new(0u16));
  let ok = std::rc::Rc::new(std::cell::Cell::new(true));
  let done = std::rc::Rc::new(std::cell::Cell::new(0u8));
  let mut fut = TryStreamObserverFuture { stream: OkBurst { len, pos: 0 }, observer: Some(Counter { n: n.clone(), in_order: ok.clone(), done: done.clone() }) };
  let mut cx = Context::from_waker(futures::task::noop_waker_ref());
  let r = Pin::new(&mut fut).poll(&mut cx);
  assert!(r.is_ready());
  assert!(n.get() == len as u16 && ok.get() && done.get() == 1);
}
