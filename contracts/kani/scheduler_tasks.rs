//@ props: C08,C16,C19
//@ target: src/scheduler.rs
// task futures — src/scheduler.rs OnceTask::poll, FutureTask::poll, RepeatTask::poll
// (pin-project / fn pointers / Future: outside Verus).  `new_timer` is stubbed by a scripted timer
// on a virtual clock: each timer the task arms records its duration and is ready or pending as a
// symbolic script says.
use std::future::Future;
use std::pin::Pin;
use std::task::{Context, Poll};
use std::time::Duration;

static mut ARMED: [u64; 6] = [0; 6];      // durations (ms) of the timers armed so far
static mut N_ARMED: usize = 0;
static mut READY: [bool; 6] = [false; 6]; // script: is the i-th armed timer ready when polled?
static mut CALLS: [usize; 6] = [0; 6];    // seq numbers the task was called with
static mut N_CALLS: usize = 0;
static mut ACCEPT: usize = 0;             // the task returns true for the first ACCEPT calls

struct ScriptTimer(usize);
impl Future for ScriptTimer {
  type Output = ();
  fn poll(self: Pin<&mut Self>, _: &mut Context<'_>) -> Poll<()> {
    if unsafe { READY[self.0] } { Poll::Ready(()) } else { Poll::Pending }
  }
}
fn timer_stub(dur: Duration) -> BoxFuture<'static, ()> {
  unsafe {
    let i = N_ARMED;
    assert!(i < 6);
    ARMED[i] = dur.as_millis() as u64;
    N_ARMED = i + 1;
    Box::pin(ScriptTimer(i))
  }
}
fn counting_task(_args: &mut u8, seq: usize) -> bool {
  unsafe {
    let i = N_CALLS;
    assert!(i < 6);
    CALLS[i] = seq;
    N_CALLS = i + 1;
    i < ACCEPT
  }
}
// virtual clock: should the code under test read the clock (the pinned RepeatTask does not), it
// gets an arbitrary, monotonically non-decreasing instant instead of the unsupported clock_gettime
static mut CLOCK_NS: u64 = 0;
fn clock_stub() -> std::time::Instant {
  unsafe {
    let step: u32 = kani::any();
    CLOCK_NS = CLOCK_NS.saturating_add(step as u64);
    let secs = (CLOCK_NS / 1_000_000_000) as i64;
    let nanos = (CLOCK_NS % 1_000_000_000) as u32;
    // std::time::Instant is a (seconds: i64, nanoseconds: u32 < 1e9) pair on unix
    std::mem::transmute::<(i64, u32), std::time::Instant>((secs, nanos))
  }
}
fn noop_cx() -> Context<'static> {
  Context::from_waker(futures::task::noop_waker_ref())
}

// [C08,C16,C19] one poll of a repeating task on a virtual clock, up to 3 timers falling due:
// the task is called with consecutive sequence numbers starting at the current one, only for
// timers that are ready; after every accepted tick exactly one fresh timer of the period is armed;
// the future resolves as soon as the task declines, and stays pending on a pending timer
//@ bounded: at most 3 due timers per poll (sequence number and period symbolic)
#[kani::proof]
#[kani::unwind(6)]
#[kani::stub(new_timer, timer_stub)]
#[kani::stub(std::time::Instant::now, clock_stub)]
fn repeat_task_poll_step() {
  let period_ms: u16 = kani::any();
  let period = Duration::from_millis(period_ms as u64);
  let seq0: usize = kani::any();
  kani::assume(seq0 < usize::MAX - 8);
  let accept: usize = kani::any();
  kani::assume(accept <= 3);
  let ready: [bool; 4] = kani::any();
  unsafe {
    ACCEPT = accept;
    READY = [ready[0], ready[1], ready[2], ready[3], false, false];
  }
  let mut task = RepeatTask::new(period, counting_task, 0u8);
  task.seq = seq0;
  assert!(unsafe { N_ARMED } == 1 && unsafe { ARMED[0] } == period_ms as u64);
  let mut cx = noop_cx();
  let r = Pin::new(&mut task).poll(&mut cx);
  // d = number of leading ready timers (the 4th is never consulted: the script is bounded)
  let mut d = 0;
  while d < 4 && ready[d] { d += 1; }
  kani::assume(d <= 3);
  let calls = unsafe { N_CALLS };
  let armed = unsafe { N_ARMED };
  // the task ran once per due timer, until it declined
  let expect_calls = if d <= accept { d } else { accept + 1 };
  assert!(calls == expect_calls);
  let mut i = 0;
  while i < calls { assert!(unsafe { CALLS[i] } == seq0 + i); i += 1; }
  // one fresh timer of the period after every accepted tick
  let accepted = if calls <= accept { calls } else { accept };
  // (a timer armed and then dropped unused when the task declines would not be observable: allowed)
  assert!(armed >= 1 + accepted && armed <= 2 + accepted);
  let mut j = 0;
  while j < armed { assert!(unsafe { ARMED[j] } == period_ms as u64); j += 1; }
  assert!(task.seq == seq0 + accepted);
  // resolves exactly when the task declined; otherwise pending on a pending timer
  if d > accept { assert!(r.is_ready()); } else { assert!(r.is_pending()); }
}

fn plus_one(a: u8) -> NormalReturn<u8> { NormalReturn::new(a.wrapping_add(1)) }

// [C19] a one-shot task runs its function exactly once, on its first poll, with its arguments
#[kani::proof]
fn once_task_runs_once() {
  let a: u8 = kani::any();
  let mut t = OnceTask::new(plus_one, a);
  let mut cx = noop_cx();
  match Pin::new(&mut t).poll(&mut cx) {
    Poll::Ready(NormalReturn(v)) => assert!(v == a.wrapping_add(1)),
    Poll::Pending => panic!("a one-shot task is ready on its first poll"),
  }
  assert!(t.args.is_none()); // the arguments are gone: it cannot run a second time
}

struct ScriptFuture { pending_polls: u8, value: u8 }
impl Future for ScriptFuture {
  type Output = u8;
  fn poll(mut self: Pin<&mut Self>, _: &mut Context<'_>) -> Poll<u8> {
    if self.pending_polls == 0 { Poll::Ready(self.value) } else { self.pending_polls -= 1; Poll::Pending }
  }
}
fn add_task(v: u8, a: u8) -> NormalReturn<u8> { NormalReturn::new(v.wrapping_add(a)) }

// [C08,C19] a future-driven task stays pending (and does not run its function) while its future
// is pending, and runs the function once with the future's value when it resolves
//@ bounded: the future is pending for at most 2 polls
#[kani::proof]
#[kani::unwind(4)]
fn future_task_relays_value_once() {
  let k: u8 = kani::any();
  kani::assume(k <= 2);
  let v: u8 = kani::any();
  let a: u8 = kani::any();
  let mut t = FutureTask::new(ScriptFuture { pending_polls: k, value: v }, add_task, a);
  let mut cx = noop_cx();
  let mut i = 0;
  while i < k {
    assert!(Pin::new(&mut t).poll(&mut cx).is_pending());
    assert!(t.args.is_some());
    i += 1;
  }
  match Pin::new(&mut t).poll(&mut cx) {
    Poll::Ready(NormalReturn(r)) => assert!(r == v.wrapping_add(a)),
    Poll::Pending => panic!("must resolve once the future is ready"),
  }
  assert!(t.args.is_none());
}
