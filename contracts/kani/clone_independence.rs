//@ props: C08,C13
//@ target: src/observable.rs
//@ thorough-subst: [u8; 3] ==> [u8; 5]
//@ thorough-subst: kani::assume(n <= 3) ==> kani::assume(n <= 5)
//@ thorough-subst: kani::unwind(8) ==> kani::unwind(9)
//@ thorough-note: at most 5 items
// C13 at the API level (independent of how an operator stores its state): a built pipeline is cloned,
// both copies are subscribed one after the other with the same symbolic input history, and the two
// subscribers must see exactly the same notifications — no counter, accumulator, seen-set, queue or
// once-cell may be shared between the subscriptions of clones.  Complements the Verus contracts
// ("actual_subscribe creates fresh state from the operator's fields"), which cannot be stated any
// more when a change moves a cell INTO the operator value (the field changes its type).
use crate::verif_probe::*;
use std::cell::Cell;
use std::rc::Rc;

#[derive(Clone, Copy, PartialEq)]
enum CTerm { Open, Complete, Error(u8) }
#[derive(Clone, Copy)]
struct CScript { n: usize, items: [u8; 3], term: CTerm }
impl<O: Observer<u8, u8>> Observable<u8, u8, O> for CScript {
  type Unsub = ();
  fn actual_subscribe(self, mut observer: O) {
    let mut i = 0;
    while i < self.n {
      if observer.is_finished() { return; }
      observer.next(self.items[i]);
      i += 1;
    }
    match self.term { CTerm::Open => {}, CTerm::Complete => observer.complete(), CTerm::Error(e) => observer.error(e) }
  }
}
impl ObservableExt<u8, u8> for CScript {}
fn any_cscript() -> CScript {
  let n: usize = kani::any();
  kani::assume(n <= 3);
  let t: u8 = kani::any();
  let term = if t == 0 { CTerm::Open } else if t == 1 { CTerm::Complete } else { CTerm::Error(kani::any()) };
  CScript { n, items: kani::any(), term }
}
fn same(a: &LogRc, b: &LogRc) {
  assert!(count(a) == count(b));
  let mut i = 0;
  while i < CAP { assert!(at(a, i) == at(b, i)); i += 1; }
}
fn twice<Op>(op: Op) where Op: Clone + Observable<u8, u8, Probe> {
  let (l1, l2) = (new_log(), new_log());
  let copy = op.clone();
  op.actual_subscribe(Probe::new(&l1));
  copy.actual_subscribe(Probe::new(&l2));
  same(&l1, &l2);
}

// [C13] counting operators (take_last / skip_last: VecDeque, beyond CBMC's budget)
//@ bounded: at most 3 items
#[kani::proof]
#[kani::unwind(8)]
fn clones_of_take_are_independent() {
  let s = any_cscript();
  let k: usize = kani::any();
  kani::assume(k <= 4);
  twice(s.take(k));
}
//@ bounded: at most 3 items
#[kani::proof]
#[kani::unwind(8)]
fn clones_of_skip_are_independent() {
  let s = any_cscript();
  let k: usize = kani::any();
  kani::assume(k <= 4);
  twice(s.skip(k));
}
//@ bounded: at most 3 items
#[kani::proof]
#[kani::unwind(8)]
fn clones_of_take_while_are_independent() {
  let s = any_cscript();
  let k: u8 = kani::any();
  twice(s.take_while(move |v| *v < k));
}

// [C13] accumulating / remembering operators
//@ bounded: at most 3 items
#[kani::proof]
#[kani::unwind(8)]
fn clones_of_scan_and_reduce_are_independent() {
  let s = any_cscript();
  let d: u8 = kani::any();
  if kani::any() { twice(s.scan_initial(d, |a: u8, v: u8| a.wrapping_add(v))); }
  else { twice(s.reduce_initial(d, |a: u8, v: u8| a.wrapping_mul(3).wrapping_add(v))); }
}
//@ bounded: at most 3 items
#[kani::proof]
#[kani::unwind(8)]
fn clones_of_last_distinct_default_are_independent() {
  let s = any_cscript();
  let d: u8 = kani::any();
  let which: u8 = kani::any();
  if which == 0 { twice(s.last()); }
  else if which == 1 { twice(s.distinct_until_changed()); }
  else { twice(s.default_if_empty(d)); }
}

// [C13,C15] finalize: every subscription of a clone runs ITS finalizer exactly once
//@ bounded: at most 3 items
#[kani::proof]
#[kani::unwind(8)]
fn clones_of_finalize_each_run_their_finalizer() {
  let s = any_cscript();
  kani::assume(s.term != CTerm::Open);
  let calls = Rc::new(Cell::new(0u8));
  let c = calls.clone();
  let op = s.finalize(move || c.set(c.get() + 1));
  let copy = op.clone();
  let (l1, l2) = (new_log(), new_log());
  op.actual_subscribe(Probe::new(&l1));
  assert!(calls.get() == 1);
  copy.actual_subscribe(Probe::new(&l2));
  assert!(calls.get() == 2);
  same(&l1, &l2);
}

// ---- from_future: every subscription of a clone polls ITS OWN future ---------------------------------
use std::future::Future;
use std::pin::Pin;
use std::task::{Context, Poll};
use crate::scheduler::{Scheduler, TaskHandle};

#[derive(Clone)]
struct NowSched;
impl<T> Scheduler<T> for NowSched
where
  T: Future + Unpin,
{
  fn schedule(&self, mut task: T, _delay: Option<std::time::Duration>) -> TaskHandle<T::Output> {
    let mut cx = Context::from_waker(futures::task::noop_waker_ref());
    match Pin::new(&mut task).poll(&mut cx) {
      Poll::Ready(v) => TaskHandle::value_handle(v),
      Poll::Pending => panic!("the scripted future is ready on its first poll"),
    }
  }
}
#[derive(Clone)]
struct CountingFuture { polls: Rc<Cell<u8>>, value: u8 }
impl Future for CountingFuture {
  type Output = u8;
  fn poll(self: Pin<&mut Self>, _: &mut Context<'_>) -> Poll<u8> {
    self.polls.set(self.polls.get() + 1);
    Poll::Ready(self.value)
  }
}
struct InfProbe(Probe);
impl Observer<u8, std::convert::Infallible> for InfProbe {
  fn next(&mut self, v: u8) { Observer::<u8, u8>::next(&mut self.0, v) }
  fn error(self, e: std::convert::Infallible) { match e {} }
  fn complete(self) { Observer::<u8, u8>::complete(self.0) }
  fn is_finished(&self) -> bool { Observer::<u8, u8>::is_finished(&self.0) }
}

// [C13,C08] building polls nothing; each subscription of a clone polls its own copy of the future once
// and relays its value and the completion
#[kani::proof]
#[kani::unwind(8)]
fn clones_of_from_future_each_poll_their_own_future() {
  let polls = Rc::new(Cell::new(0u8));
  let v: u8 = kani::any();
  let op = crate::observable::from_future(CountingFuture { polls: polls.clone(), value: v }, NowSched);
  assert!(polls.get() == 0);
  let copy = op.clone();
  let (l1, l2) = (new_log(), new_log());
  let _u1 = op.actual_subscribe(InfProbe(Probe::new(&l1)));
  assert!(polls.get() == 1);
  let _u2 = copy.actual_subscribe(InfProbe(Probe::new(&l2)));
  assert!(polls.get() == 2);
  assert!(count(&l1) == 2 && at(&l1, 0) == Some(Ev::Next(v)) && at(&l1, 1) == Some(Ev::Complete));
  same(&l1, &l2);
}

// [C13] from_iter is lazy and every subscription runs the source anew: `into_iter()` of the given value
// (user code: a cursor, a snapshot of shared data) is called on subscription — not when the pipeline is
// built or cloned — and exactly once per subscription of a clone.
#[derive(Clone)]
struct CountedSource(Rc<Cell<u8>>, u8);
impl IntoIterator for CountedSource {
  type Item = u8;
  type IntoIter = std::option::IntoIter<u8>;
  fn into_iter(self) -> Self::IntoIter {
    self.0.set(self.0.get() + 1);
    Some(self.1).into_iter()
  }
}
//@ bounded: a one-item source (the loop of from_iter runs at most twice)
#[kani::proof]
#[kani::unwind(4)]
fn from_iter_runs_its_source_on_subscription_once_per_clone() {
  let v: u8 = kani::any();
  let runs = Rc::new(Cell::new(0u8));
  let built = from_iter(CountedSource(runs.clone(), v)).map(|x: u8| x);
  assert!(runs.get() == 0);            // building performs no work
  let copy = built.clone();
  assert!(runs.get() == 0);            // nor does cloning
  let log1 = new_log();
  built.actual_subscribe(Probe::new(&log1));
  assert!(runs.get() == 1);
  let log2 = new_log();
  copy.actual_subscribe(Probe::new(&log2));
  assert!(runs.get() == 2);            // the second subscription ran the source again
  assert!(count(&log1) == 2 && at(&log1, 0) == Some(Ev::Next(v)) && at(&log1, 1) == Some(Ev::Complete));
  assert!(count(&log2) == 2 && at(&log2, 0) == Some(Ev::Next(v)) && at(&log2, 1) == Some(Ev::Complete));
}
