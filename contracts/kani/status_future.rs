//@ props: C14
//@ target: src/ops/complete_status.rs
// complete_status, waiting side — src/ops/complete_status.rs StatusFuture::poll over the REAL
// futures AtomicWaker.  The all-interleavings claim is outside the family; what IS decided here is
// the sequential protocol obligation of AtomicWaker ("register, THEN re-check the condition"),
// exercised by running the producer's terminal at the one yield point that matters (hook
// `StatusFuture::poll:checked-not-closed`, cfg rxrust_verif).
use crate::verif_probe::*;
use std::future::Future;
use std::pin::Pin;
use std::sync::atomic::{AtomicUsize, Ordering as O2};
use std::task::{Context, Poll, RawWaker, RawWakerVTable, Waker};

static WAKES: AtomicUsize = AtomicUsize::new(0);
static mut PRODUCER: Option<Arc<CompleteStatus>> = None;
static mut PRODUCER_FAILS: bool = false;

fn rw_clone(_: *const ()) -> RawWaker { RawWaker::new(std::ptr::null(), &VT) }
fn rw_wake(_: *const ()) { WAKES.fetch_add(1, O2::Relaxed); }
fn rw_drop(_: *const ()) {}
static VT: RawWakerVTable = RawWakerVTable::new(rw_clone, rw_wake, rw_wake, rw_drop);
fn counting_waker() -> Waker { unsafe { Waker::from_raw(RawWaker::new(std::ptr::null(), &VT)) } }

// the producing side's terminal, run at the yield point inside poll
fn producer_step(_at: &'static str) {
  #[allow(static_mut_refs)]
  if let Some(status) = unsafe { PRODUCER.take() } {
    let log = new_log();
    let obs = StatusObserver { observer: Probe::new(&log), status };
    if unsafe { PRODUCER_FAILS } { Observer::<u8, u8>::error(obs, 1) } else { Observer::<u8, u8>::complete(obs) }
  }
}

// [C14] whenever the source terminates — before the poll, or between the poll's check and its
// waker registration — the waiter is not left pending without a wake-up: poll returns Ready, or it
// returns Pending with the flag still clear, or a wake-up has been delivered to its waker
#[kani::proof]
fn status_future_no_lost_wakeup() {
  let status = Arc::new(CompleteStatus::default());
  let terminate_before: bool = kani::any();
  let terminate_inside: bool = kani::any();
  unsafe { PRODUCER_FAILS = kani::any(); }
  if terminate_before {
    unsafe { PRODUCER = Some(status.clone()); }
    producer_step("before");
  } else if terminate_inside {
    unsafe { PRODUCER = Some(status.clone()); }
    #[cfg(rxrust_verif)]
    unsafe { crate::verif_hooks::YIELD = Some(producer_step); }
  }
  let waker = counting_waker();
  let mut cx = Context::from_waker(&waker);
  let mut fut = StatusFuture(status.clone());
  let r = Pin::new(&mut fut).poll(&mut cx);
  match r {
    Poll::Ready(_) => assert!(status.is_closed()),
    Poll::Pending => assert!(!status.is_closed() || WAKES.load(O2::Relaxed) > 0,
      "pending although the source has terminated, and no wake-up will ever come"),
  }
  // the outcome reported is the real one
  if status.is_closed() {
    assert!(status.error_occur() == unsafe { PRODUCER_FAILS } && status.is_completed() != unsafe { PRODUCER_FAILS });
  }
}
