//@ props: C02,C17,C19
//@ target: src/scheduler.rs
// The spawned wrapper — src/scheduler.rs Remote::poll.  The mechanism the properties rest on:
// "task handles clear keep_running under the same lock the running task holds" — a task body runs
// only while the wrapper holds the handle's lock, so `TaskHandle::unsubscribe()` (which takes the
// same lock) cannot return while the body is running, and a cancelled handle never starts the body.
// Sequential protocol obligations (no threads in Kani): the probe future observes, from INSIDE its
// poll, whether the handle's lock is held (hook `MutArc::verif_is_locked`, cfg rxrust_verif).
// `catch_unwind` makes Kani ICE; it is stubbed by a pass-through (ASSUMED: the body does not panic).
use std::cell::Cell;
use std::rc::Rc;
use std::future::Future;
use std::pin::Pin;
use std::task::{Context, Poll};
use std::panic as stdpanic;

struct LockProbe {
  info: MutArc<HandleInfo<NormalReturn<()>>>,
  seen: Rc<Cell<u8>>,       // 0 = not polled, 1 = polled with the lock held, 2 = polled with the lock free
  ready: bool,
}
impl Future for LockProbe {
  type Output = NormalReturn<()>;
  fn poll(self: Pin<&mut Self>, _: &mut Context<'_>) -> Poll<Self::Output> {
    self.seen.set(if self.info.verif_is_locked() { 1 } else { 2 });
    if self.ready { Poll::Ready(NormalReturn::new(())) } else { Poll::Pending }
  }
}
fn no_unwind<F: FnOnce() -> R + std::panic::UnwindSafe, R>(f: F) -> std::thread::Result<R> { Ok(f()) }

// [C02,C17,C19] one poll of the wrapper on a live handle: the body is polled WHILE the handle's lock is
// held, the lock is free again afterwards, and a body that is not ready leaves the handle open
//@ bounded: the body answers Pending (the store of a Ready value drags the drop glue of Box<dyn Any + Send> into CBMC and does not finish in 240 s)
#[kani::proof]
#[kani::stub(stdpanic::catch_unwind, no_unwind)]
fn remote_poll_runs_task_under_the_handle_lock() {
  let seen = Rc::new(Cell::new(0u8));
  let ready: bool = false;
  let handle = TaskHandle(MutArc::own(HandleInfo { keep_running: true, value: None }));
  let probe = LockProbe { info: handle.0.clone(), seen: seen.clone(), ready };
  let (remote, h2) = remote_handle(probe);
  // the wrapper must work on the handle it returns: rebuild it around OUR handle cell
  let mut remote = Box::pin(Remote { future: remote.future, handle_info: handle.0.clone() });
  drop(h2);
  let mut cx = Context::from_waker(futures::task::noop_waker_ref());
  let r = remote.as_mut().poll(&mut cx);
  assert!(seen.get() == 1);
  assert!(!handle.0.verif_is_locked());
  assert!(r.is_ready() == ready);
  assert!(handle.is_closed() == ready);
}

// [C02,C19] a cancelled handle: the body is never polled and the wrapper resolves at once
#[kani::proof]
#[kani::stub(stdpanic::catch_unwind, no_unwind)]
fn remote_poll_never_starts_a_cancelled_task() {
  let seen = Rc::new(Cell::new(0u8));
  let handle = TaskHandle(MutArc::own(HandleInfo { keep_running: true, value: None }));
  let probe = LockProbe { info: handle.0.clone(), seen: seen.clone(), ready: kani::any() };
  let (remote, h2) = remote_handle(probe);
  let mut remote = Box::pin(Remote { future: remote.future, handle_info: handle.0.clone() });
  drop(h2);
  TaskHandle(handle.0.clone()).unsubscribe();
  let mut cx = Context::from_waker(futures::task::noop_waker_ref());
  let r = remote.as_mut().poll(&mut cx);
  assert!(r.is_ready());
  assert!(seen.get() == 0);
}
