// ---------------------------------------------------------------------------------------------
// /verif/contracts/prelude.rs — contract vocabulary (DESIGN.md §2.1).  Hand-written, trusted as
// DEFINITIONS only: it contains no rxRust code.  It is pasted at the top of every generated
// Verus file, in front of the text extracted from /repo.
// ---------------------------------------------------------------------------------------------

// ---- assumed contracts on std (each one is listed in evidence as an assumption) ---------------
#[verifier::allow(undeclared_external_trait)]
pub assume_specification<T, U, F>[ Option::<T>::map_or ](o: Option<T>, d: U, f: F) -> (r: U)
  where F: FnOnce(T) -> U + std::marker::Destruct, U: std::marker::Destruct
  requires o is Some ==> f.requires((o->0,)),
  ensures match o { Some(t) => f.ensures((t,), r), None => r == d };

pub assume_specification<T: std::default::Default>[ std::mem::take ](x: &mut T) -> (r: T)
  ensures r == *old(x), call_ensures(T::default, (), *final(x));

pub assume_specification<T>[ Option::<T>::replace ](o: &mut Option<T>, v: T) -> (r: Option<T>)
  ensures r == *old(o), *final(o) == Some(v);

pub assume_specification<T, F: FnOnce() -> T>[ Option::<T>::get_or_insert_with ](o: &mut Option<T>, f: F) -> (r: &mut T)
  requires *old(o) is None ==> f.requires(()),
  ensures
    *old(o) is Some ==> *r == (*old(o))->0,
    *old(o) is None ==> f.ensures((), *r),
    *final(o) == Some(*final(r));

#[verifier::allow(undeclared_external_trait)]
pub assume_specification<T>[ std::mem::drop ](x: T) where T: std::marker::Destruct;

// further std functions a changed body is likely to use (so that such a change is DECIDED rather
// than left undecided for want of a specification)
pub assume_specification<T>[ std::mem::replace ](x: &mut T, v: T) -> (r: T)
  ensures r == *old(x), *final(x) == v;
pub assume_specification<T>[ Option::<T>::or ](o: Option<T>, p: Option<T>) -> (r: Option<T>)
  ensures r == (if o is Some { o } else { p });
#[verifier::allow(undeclared_external_trait)]
pub assume_specification<T, P>[ Option::<T>::filter ](o: Option<T>, p: P) -> (r: Option<T>)
  where P: FnOnce(&T) -> bool + std::marker::Destruct, T: std::marker::Destruct
  requires o is Some ==> p.requires((&o->0,)),
  ensures o is None ==> r is None,
    o is Some ==> exists |b: bool| #[trigger] p.ensures((&o->0,), b) && r == (if b { o } else { None });
pub uninterp spec fn duration_as_millis(d: core::time::Duration) -> u128;
pub assume_specification[ core::time::Duration::as_millis ](d: &core::time::Duration) -> (r: u128)
  ensures r == duration_as_millis(*d);
// `bool::then_some`: assumed std contract
pub assume_specification<T>[ bool::then_some ](b: bool, t: T) -> (r: Option<T>)
  ensures r == (if b { Some(t) } else { None::<T> });
pub uninterp spec fn duration_is_zero(d: core::time::Duration) -> bool;
pub assume_specification[ core::time::Duration::is_zero ](d: &core::time::Duration) -> (r: bool)
  ensures r == duration_is_zero(*d);
pub assume_specification<T, A: std::alloc::Allocator>[ std::collections::VecDeque::<T, A>::is_empty ](v: &std::collections::VecDeque<T, A>) -> (r: bool)
  ensures r == (v@.len() == 0);
pub assume_specification<T, A: std::alloc::Allocator>[ std::collections::VecDeque::<T, A>::front ](v: &std::collections::VecDeque<T, A>) -> (r: Option<&T>)
  ensures v@.len() == 0 ==> r is None, v@.len() > 0 ==> r == Some(&v@[0]);
pub assume_specification<T, A: std::alloc::Allocator>[ std::collections::VecDeque::<T, A>::back ](v: &std::collections::VecDeque<T, A>) -> (r: Option<&T>)
  ensures v@.len() == 0 ==> r is None, v@.len() > 0 ==> r == Some(&v@[v@.len() - 1]);

// R9i: `E.drain(..)` that is consumed completely — assumed std contract: it yields all elements in order
// and leaves E empty
pub trait DrainAll<T> {
  fn drain_all_(&mut self) -> Vec<T>;
}
impl<T> DrainAll<T> for Vec<T> {
  #[verifier::external_body]
  fn drain_all_(&mut self) -> (r: Vec<T>)
    ensures r@ == old(self)@, final(self)@ == Seq::<T>::empty(),
  { unimplemented!() }
}
impl<T> DrainAll<T> for std::collections::VecDeque<T> {
  #[verifier::external_body]
  fn drain_all_(&mut self) -> (r: Vec<T>)
    ensures r@ == old(self)@, final(self)@ == Seq::<T>::empty(),
  { unimplemented!() }
}

// R17 / R9i for maps: stand-ins for `HashMap::entry(k).or_insert_with(f)` (split by rule R17 into "is the key
// present?", the closure body as straight-line code, and `slot_`) and for a `drain()` that is consumed
// completely.  Assumed std contract: the entry API stores the fresh value under exactly that key, leaves every
// other key alone and returns a mutable reference to the stored value; `drain()` yields every (key, value) pair
// exactly once (in an unspecified order) and leaves the map empty.
pub trait MapSlot<K, V> {
  fn slot_(&mut self, k: K, fresh: Option<V>) -> &mut V;
}
impl<K: Hash + Eq, V> MapSlot<K, V> for HashMap<K, V> {
  #[verifier::external_body]
  fn slot_(&mut self, k: K, fresh: Option<V>) -> (r: &mut V)
    ensures
      *r == (if old(self)@.contains_key(k) { old(self)@[k] } else { fresh->0 }),
      final(self)@ == old(self)@.insert(k, *final(r)),
  { unimplemented!() }
}
impl<K: Hash + Eq, V> DrainAll<(K, V)> for HashMap<K, V> {
  #[verifier::external_body]
  fn drain_all_(&mut self) -> (r: Vec<(K, V)>)
    ensures
      final(self)@ == Map::<K, V>::empty(),
      forall |i: int, j: int| 0 <= i < j < r@.len() ==> (#[trigger] r@[i]).0 != (#[trigger] r@[j]).0,
      forall |i: int| 0 <= i < r@.len() ==> old(self)@.contains_key((#[trigger] r@[i]).0) && old(self)@[r@[i].0] == r@[i].1,
      forall |k: K| #[trigger] old(self)@.contains_key(k) ==> exists |i: int| 0 <= i < r@.len() && (#[trigger] r@[i]).0 == k,
  { unimplemented!() }
}

// SmallVec API that `Vec` (its stand-in by R10) lacks: whether the inline storage has spilled to the heap is
// an implementation detail — unspecified here (either answer is possible)
pub trait SmallVecApi {
  fn spilled(&self) -> bool;
}
impl<T> SmallVecApi for Vec<T> {
  #[verifier::external_body]
  fn spilled(&self) -> (r: bool) { unimplemented!() }
}

// ---- notifications ----------------------------------------------------------------------------
pub enum Ev<Item, Err> { Next(Item), Error(Err), Complete }

// ---- value-world observer: the contract of src/observer.rs:9-22 -------------------------------
// wf        representation invariant (+ totality of the closures held)
// records   "this observer is a faithful recorder"; operators are not (records() == false)
// rx        what a recorder has been handed so far
// delivered uninterpreted witness: a recorder of this type was driven through exactly trace t
//           and then consumed by its terminal.  Only a terminal call can establish it.
// fin       the truth is_finished() must report
pub trait Observer<Item, Err>: Sized {
  spec fn wf(&self) -> bool;
  spec fn records(&self) -> bool;
  spec fn rx(&self) -> Seq<Ev<Item, Err>>;
  spec fn delivered(t: Seq<Ev<Item, Err>>) -> bool;
  spec fn fin(&self) -> bool;
  // ended(o, ev): what the terminal `ev` called on exactly the observer value `o` achieves.  For an
  // abstract observer it is an uninterpreted witness of the call; an operator that is held inside
  // a shared slot defines it as its own terminal contract, so that the slot's contract composes.
  spec fn ended(o: Self, ev: Ev<Item, Err>) -> bool;

  fn next(&mut self, value: Item)
    requires old(self).wf(),
    ensures final(self).wf(),
      old(self).records() ==> final(self).records()
        && final(self).rx() == old(self).rx().push(Ev::Next(value));
  fn error(self, err: Err)
    requires self.wf(),
    ensures self.records() ==> Self::delivered(self.rx().push(Ev::Error(err))),
      Self::ended(self, Ev::Error(err));
  fn complete(self)
    requires self.wf(),
    ensures self.records() ==> Self::delivered(self.rx().push(Ev::Complete)),
      Self::ended(self, Ev::Complete);
  fn is_finished(&self) -> (r: bool)
    requires self.wf(),
    ensures r == self.fin();
}

// A downstream on which every notification is forbidden: a body verified against it provably
// makes no call on its observer ("silence" obligations, used where the correct behaviour of a
// consuming method is to emit nothing).
pub trait MutedObserver<Item, Err>: Sized {
  fn next(&mut self, value: Item) requires false;
  fn error(self, err: Err) requires false;
  fn complete(self) requires false;
  fn is_finished(&self) -> (r: bool);
}

// A downstream that accepts items but on which terminals are forbidden.
pub trait UnendingObserver<Item, Err>: Sized {
  fn next(&mut self, value: Item);
  fn error(self, err: Err) requires false;
  fn complete(self) requires false;
  fn is_finished(&self) -> (r: bool);
}

// ---- subscriptions ----------------------------------------------------------------------------
// dead          no notification can be delivered through this subscription any more
// unsubscribed  uninterpreted witness: unsubscribe() was called on exactly this value
pub trait Subscription: Sized {
  spec fn swf(&self) -> bool;
  spec fn dead(&self) -> bool;
  spec fn unsubscribed(s: Self) -> bool;
  fn unsubscribe(self)
    requires self.swf(),
    ensures Self::unsubscribed(self);
  fn is_closed(&self) -> (r: bool)
    requires self.swf(),
    ensures r ==> self.dead();
}

// ---- observables ------------------------------------------------------------------------------
// subscribed(src, o, u): uninterpreted witness "src.actual_subscribe(o) was called and returned u"
pub trait Observable<Item, Err, O: Observer<Item, Err>>: Sized {
  type Unsub: Subscription;
  spec fn src_wf(&self) -> bool;
  spec fn subscribed(src: Self, o: O, u: Self::Unsub) -> bool;
  fn actual_subscribe(self, observer: O) -> (u: Self::Unsub)
    requires self.src_wf(), observer.wf(),
    ensures Self::subscribed(self, observer, u), u.swf();
}

// ---- one-handle stand-ins for src/rc.rs MutRc / MutArc ----------------------------------------
// What this drops, exactly: aliasing between clones of a handle and the dynamic borrow / lock
// acquisition (RefCell re-entrancy panics, Mutex deadlock and poisoning).
// Field 1 is the CELL IDENTITY (ghost): `own` yields an unspecified identity, `clone` and every
// access keep it.  Two handles are provably "the same cell" only when one was clone()d from the
// other; two cells created by two `own` calls are never provably the same, even with equal content.
pub struct MutRc<T>(pub T, pub Ghost<int>);
pub struct MutArc<T>(pub T, pub Ghost<int>);
// probe files only (rule R13): a last use of a guard binding, giving the borrow checker the scope of
// the real Ref / RefMut / MutexGuard temporary
pub fn hold_<T>(_g: &T) {}
// probe files only (rule R13): a wrapper with a destructor, so that the borrow it holds is live until the
// end of its scope on EVERY exit path (as the real guard's is)
pub fn drop_guard_<T>(_g: T) {}
pub struct GuardScope_<T>(pub T);
impl<T> Drop for GuardScope_<T> {
  fn drop(&mut self) opens_invariants none no_unwind {}
}
impl<T> MutRc<T> {
  pub fn rc_deref_mut(&mut self) -> (r: &mut T)
    ensures *r == old(self).0, *final(r) == final(self).0, final(self).1 == old(self).1,
  { &mut self.0 }
  pub fn rc_deref(&self) -> (r: &T) ensures *r == self.0 { &self.0 }
  pub fn own(t: T) -> (r: Self) ensures r.0 == t { MutRc(t, Ghost(arbitrary())) }
  // non-blocking acquisition (RefCell::try_borrow_mut / Mutex::try_lock): may FAIL for reasons outside the
  // model (the cell is borrowed / locked elsewhere) — declared so that code that starts using it still types
  #[verifier::external_body]
  pub fn try_rc_deref_mut(&mut self) -> (r: Option<&mut T>)
    ensures
      r is Some ==> *(r->0) == old(self).0 && *final(r->0) == final(self).0,
      r is None ==> final(self).0 == old(self).0,
      final(self).1 == old(self).1,
  { unimplemented!() }
  #[verifier::external_body]
  pub fn try_rc_deref(&self) -> (r: Option<&T>)
    ensures r is Some ==> *(r->0) == self.0,
  { unimplemented!() }
}
impl<T> MutArc<T> {
  pub fn rc_deref_mut(&mut self) -> (r: &mut T)
    ensures *r == old(self).0, *final(r) == final(self).0, final(self).1 == old(self).1,
  { &mut self.0 }
  pub fn rc_deref(&self) -> (r: &T) ensures *r == self.0 { &self.0 }
  pub fn own(t: T) -> (r: Self) ensures r.0 == t { MutArc(t, Ghost(arbitrary())) }
  // non-blocking acquisition (RefCell::try_borrow_mut / Mutex::try_lock): may FAIL for reasons outside the
  // model (the cell is borrowed / locked elsewhere) — declared so that code that starts using it still types
  #[verifier::external_body]
  pub fn try_rc_deref_mut(&mut self) -> (r: Option<&mut T>)
    ensures
      r is Some ==> *(r->0) == old(self).0 && *final(r->0) == final(self).0,
      r is None ==> final(self).0 == old(self).0,
      final(self).1 == old(self).1,
  { unimplemented!() }
  #[verifier::external_body]
  pub fn try_rc_deref(&self) -> (r: Option<&T>)
    ensures r is Some ==> *(r->0) == self.0,
  { unimplemented!() }
}

// ---- handle-world observer --------------------------------------------------------------------
// For impls whose Self type is a shared handle (MutRc<..>, MutArc<..>, Subscriber, ...) the
// consuming receivers of the real trait are checked as `&mut self` (rule R7): consuming a handle
// does not consume the cell, and the cell's post-state is what the contract has to describe.
pub trait HObserver<Item, Err>: Sized {
  spec fn hwf(&self) -> bool;
  spec fn hfin(&self) -> bool;
  fn next(&mut self, value: Item)
    requires old(self).hwf(),
    ensures final(self).hwf();
  // (the real receiver is consumed by a terminal: nothing is promised about the handle afterwards)
  fn error(&mut self, err: Err)
    requires old(self).hwf();
  fn complete(&mut self)
    requires old(self).hwf();
  fn is_finished(&self) -> (r: bool)
    requires self.hwf(),
    ensures r == self.hfin();
}

pub trait HSubscription: Sized {
  spec fn hswf(&self) -> bool;
  spec fn hdead(&self) -> bool;
  fn unsubscribe(&mut self)
    requires old(self).hswf(),
    ensures final(self).hswf(), final(self).hdead();
  fn is_closed(&self) -> (r: bool)
    requires self.hswf(),
    ensures r ==> self.hdead();
}

pub struct TypeHint<T>(pub core::marker::PhantomData<T>);
impl<T> TypeHint<T> {
  pub fn new() -> Self { TypeHint(core::marker::PhantomData) }
}

// ---- assumption: Clone of an item/value type is faithful ---------------------------------------
pub mod clone_axiom {
  use vstd::prelude::*;
  #[verifier::external_body]
  pub broadcast proof fn axiom_clone_faithful<T: Clone>(a: T, b: T)
    ensures #[trigger] call_ensures(T::clone, (&a,), b) ==> a == b
  {}
}
broadcast use clone_axiom::axiom_clone_faithful;

// a cloned handle denotes the same cell: in the one-handle stand-in, a copy with equal content
impl<T> Clone for MutRc<T> {
  #[verifier::external_body]
  fn clone(&self) -> (r: Self) ensures r == *self { unimplemented!() }
}
impl<T> Clone for MutArc<T> {
  #[verifier::external_body]
  fn clone(&self) -> (r: Self) ensures r == *self { unimplemented!() }
}

// handle-world observable (a subject is a handle on its two subscriber lists)
pub trait HObservable<Item, Err, O: Observer<Item, Err>>: Sized {
  type Unsub;
  spec fn hsrc_wf(&self) -> bool;
  fn actual_subscribe(&mut self, observer: O) -> (u: Self::Unsub)
    requires old(self).hsrc_wf(), observer.wf(), observer.records(),
    ensures final(self).hsrc_wf();
}

// an observable subscribed with a handle-world observer (e.g. merge_all's inner observer)
pub trait ObservableH<Item, Err, O: HObserver<Item, Err>>: Sized {
  type Unsub;
  spec fn hsubscribed(src: Self, o: O, u: Self::Unsub) -> bool;
  fn actual_subscribe(self, observer: O) -> (u: Self::Unsub)
    requires observer.hwf(),
    ensures Self::hsubscribed(self, observer, u);
}

// an observable whose observer argument is only handed on (no bound needed): used for the
// `actual_subscribe` bodies of operators that subscribe their sources with shared-state handles
pub trait ObservableAny<Item, Err, O>: Sized {
  type Unsub;
  spec fn asubscribed(src: Self, o: O, u: Self::Unsub) -> bool;
  fn actual_subscribe(self, observer: O) -> (u: Self::Unsub)
    ensures Self::asubscribed(self, observer, u);
}
impl<T> Default for TypeHint<T> {
  fn default() -> Self { TypeHint(core::marker::PhantomData) }
}
