#!/usr/bin/env python3
"""Summarise seeded/MATRIX.json: per seed the own check's exit and whether a check named in also_breaks decided it."""
import json, os, glob, sys
VERIF = os.path.dirname(os.path.dirname(os.path.abspath(__file__)))
mx = json.load(open(sys.argv[1] if len(sys.argv) > 1 else os.path.join(VERIF, "seeded", "MATRIX.json")))
own1 = []; other1 = []; und = []; silent = []
for d in sorted(glob.glob(os.path.join(VERIF, "seeded", "*"))):
    name = os.path.basename(d)
    mp = os.path.join(d, "meta.json")
    if not os.path.exists(mp) or name not in mx:
        continue
    meta = json.load(open(mp))
    r = mx[name]
    own = r.get(meta["property"], {}).get("exit")
    others = [p for p, v in r.items() if p != meta["property"] and v.get("exit") == 1]
    if own == 1:
        own1.append(name)
    elif others:
        other1.append((name, others))
    elif own == 2 or any(v.get("exit") == 2 for v in r.values()):
        und.append(name)
    else:
        silent.append(name)
print("seeds in matrix:", len(own1) + len(other1) + len(und) + len(silent))
print("decided by the posed property's check (exit 1):", len(own1))
print("decided by another property's check (also_breaks):", len(other1), other1)
print("undecided (exit 2):", len(und), und)
print("silent (exit 0):", len(silent), silent)
