#!/usr/bin/env python3
"""Print the prompt given to an independent seeding sub-agent for one property (only the property text + a worktree)."""
import json,sys
pid,wt=sys.argv[1],sys.argv[2]
p=[json.loads(l) for l in open('/verif/properties.jsonl') if json.loads(l)['id']==pid][0]
print(f"""You are working in a scratch git worktree of the rxRust library (a Rust Reactive Extensions crate) at {wt}. `cargo test --offline` works there; there is no network. Do ALL your work inside {wt} only. Do not read or touch /repo or /verif.

PROPERTY ({pid}) that the library is supposed to satisfy:
  {p['title']}
  {p['statement']}
  (Quantified over: {p['quantifier']['text']})

TASK: devise ONE realistic change to the library source (files under src/, not tests) that BREAKS this property while
  (a) the crate still compiles, and
  (b) the entire existing unit-test suite still passes: `cargo test --lib --offline` (255 tests; `ops::delay::tests::shared_smoke` is known flaky and may be ignored), and the doc tests `cargo test --doc --offline`.
The change should look like a plausible refactor / optimisation / slip a maintainer could make (a few lines), and it should need something specific to manifest — a particular interleaving, a multi-step sequence of operations, an unusual input or parameter value, or two cooperating sites that each look fine alone — NOT something ordinary use would expose at once.
It must introduce a NEW violation in code that is currently correct: if you notice that the unmodified code already deviates from the property somewhere, do not use that spot.

DELIVERABLES, all inside {wt}:
 1. the source change applied in the worktree (leave it uncommitted) and `{wt}/patch.diff` produced by `git diff -- src > patch.diff` (source changes only, no tests);
 2. a demonstration `{wt}/tests/demo_{pid.lower()}.rs`: an integration test using the public API (`use rxrust::prelude::*;`) that FAILS with the change applied and PASSES on the unmodified code. Verify both directions yourself (e.g. `git apply -R patch.diff` / `git apply patch.diff`). Do not put the demo into patch.diff. Note `subscribe(closure)` needs Err = Infallible; other public paths: `rxrust::ops::...`, `rxrust::observable::...`.
 3. `{wt}/meta.json`: {{"property": "{pid}", "summary": ..., "files": [...], "needs_to_manifest": ..., "commands_run": [...with results...]}}.
Finish with a short report: what you changed, why the tests miss it, and the exact outputs of the demo with and without the change.""")
