#!/usr/bin/env python3
"""
Engine V, part 1: mechanical extraction of real rxRust functions into single-file Verus inputs.

A *unit template* (/verif/contracts/units/*.vt) is Verus text with `@@` directives.  Everything
that is not a directive is contract text (spec fns, lemmas, annotations) and is copied as is.
Directives pull REAL text out of /repo's working tree on every run:

  @@variants K=v1,v2 [K2=w1,w2]          the unit is generated once per column; ${K} is replaced
  @@struct <file> <Name> [macro=.. args=..]   struct item, fields made pub (R2), attrs dropped (R3)
  @@enum   <file> <Name>
  @@impl <file> [macro=<m> args=<a;b;c>] [as=handle] :: <impl header, whitespace-insensitive>
      @@subst <A> => <B>                 generic instantiation used at the real use site (R10)
      @@dropwhere <text>                 drop one where-clause bound made redundant by @@subst
      @@spec                             following lines are added inside the impl (spec fns)
      @@fn <name>                        following lines: contract clauses spliced between the
                                         signature and the body (R5)
      @@loop <fn> <ordinal>              following lines: invariant/decreases of that loop
      @@rewrite <fn> :: <old> ==> <new>  declared textual rewrite of the body (counted, R8/R9)
      @@silent <fn> <MutedTrait>         extra obligation: the body verified against a downstream
                                         on which calls are forbidden
      @@trusted <fn>                     emit with #[verifier::external_body] (an ASSUMPTION)
      @@skipfn <fn>                      do not emit this method at all (inherent impls only)
  @@end
  @@fn <file> <name> [macro=.. args=..]  free function; contract lines until @@end

Rewrites applied to extracted code (all syntactic, all counted in the statistics):
  R1  by-value `self` receiver:  `fn f(mut self` -> `fn f(self`, body prefixed with
      `let mut self_ = self;` and `self` -> `self_` in the body (Verus rejects `mut self`; for a
      handle impl the receiver becomes `&mut self` instead, rule R7)
  R2  struct fields / items made `pub`
  R3  attributes (#[inline], #[derive], #[must_use]) and doc comments dropped
  R4  `E.map_or(D, |x| B)` -> `match E { Some(x) => B, None => D }`  (definition of Option::map_or;
      Verus cannot reason about an un-annotated closure)
  R5  contract text spliced in (annotations only)
  R6  boilerplate spec fns for non-recording observers appended
  R7  handle impls: trait `Observer`->`HObserver`, `Subscription`->`HSubscription`, consuming
      receivers become `&mut self`
A lost anchor, an ambiguous anchor or a rewrite that no longer matches raises ExtractError, which
the runner reports as UNDECIDED (exit 2) — never as a violation.
"""
import os, re, sys, json, hashlib

REPO = os.environ.get("RXRUST_REPO", "/repo")
VERIF = os.path.dirname(os.path.dirname(os.path.abspath(__file__)))


class ExtractError(Exception):
    pass


# ------------------------------------------------------------------------------------------------
# lexical helpers
# ------------------------------------------------------------------------------------------------
def skip_trivia(s, i):
    """If position i starts a comment, string or char literal, return index just past it, else i."""
    n = len(s)
    if s.startswith("//", i):
        j = s.find("\n", i)
        return n if j < 0 else j
    if s.startswith("/*", i):
        j = s.find("*/", i + 2)
        return n if j < 0 else j + 2
    c = s[i]
    if c == '"':
        j = i + 1
        while j < n:
            if s[j] == "\\":
                j += 2
                continue
            if s[j] == '"':
                return j + 1
            j += 1
        return n
    if c == "'":
        # char literal 'x' or '\n' ; lifetime 'a otherwise
        if i + 2 < n and s[i + 1] == "\\":
            j = s.find("'", i + 2)
            return j + 1 if j > 0 else i + 1
        if i + 2 < n and s[i + 2] == "'":
            return i + 3
        return i  # lifetime
    return i


def match_close(s, i, open_c="{", close_c="}"):
    """s[i] == open_c; return index of the matching close_c."""
    assert s[i] == open_c, (s[i : i + 20], open_c)
    depth = 0
    n = len(s)
    j = i
    while j < n:
        k = skip_trivia(s, j)
        if k != j:
            j = k
            continue
        c = s[j]
        if c == open_c:
            depth += 1
        elif c == close_c:
            depth -= 1
            if depth == 0:
                return j
        j += 1
    raise ExtractError("unbalanced %s at %d" % (open_c, i))


def ws_insensitive_regex(lit):
    lit = re.sub(r"\s+", "", lit)
    return r"\s*".join(re.escape(c) for c in lit)


def find_unique(text, lit, what):
    rx = re.compile(ws_insensitive_regex(lit))
    ms = list(rx.finditer(text))
    # ignore matches inside line comments
    ms = [m for m in ms if "//" not in text[text.rfind("\n", 0, m.start()) + 1 : m.start()]]
    if not ms:
        raise ExtractError("anchor not found: %s" % what)
    if len(ms) > 1:
        raise ExtractError("anchor ambiguous (%d matches): %s" % (len(ms), what))
    return ms[0]


def strip_tests(text):
    """drop `#[cfg(test)] mod x { .. }` blocks so that anchors never land in test code"""
    out = []
    i = 0
    for m in re.finditer(r"#\[cfg\((?:all\()?test[^\]]*\]\s*(?:pub\s+)?mod\s+\w+\s*\{", text):
        if m.start() < i:
            continue
        out.append(text[i : m.start()])
        i = match_close(text, m.end() - 1) + 1
    out.append(text[i:])
    return "".join(out)


_src_cache = {}
GSUBST = []   # [(literal, replacement)] set per template run by @@gsubst


def apply_gsubst(t, stats=None):
    for (a, b) in GSUBST:
        rx = re.compile(ws_insensitive_regex(a))
        t, n = rx.subn(b.replace("\\", "\\\\"), t)
        if stats is not None and n:
            stats["R10"] += n
    return t


def source(path):
    p = os.path.join(REPO, path)
    if p not in _src_cache:
        if not os.path.exists(p):
            raise ExtractError("source file missing: %s" % path)
        _src_cache[p] = strip_tests(open(p).read())
    return _src_cache[p]


# ------------------------------------------------------------------------------------------------
# macro_rules! instantiation (first arm, `$x` params and `$( .. )?` optional groups)
# ------------------------------------------------------------------------------------------------
def expand_macro(text, name, args, path):
    m = re.search(r"macro_rules!\s*" + re.escape(name) + r"\s*\{", text)
    if not m:
        raise ExtractError("macro %s not found in %s" % (name, path))
    body_end = match_close(text, m.end() - 1)
    inner = text[m.end() : body_end]
    # first arm: ( pattern ) => { body }
    i = inner.index("(")
    j = match_close(inner, i, "(", ")")
    pattern = inner[i + 1 : j]
    k = inner.index("{", j)
    l = match_close(inner, k)
    body = inner[k + 1 : l]
    # the invocation must exist in the file (so that we verify what is really instantiated)
    inv = ws_insensitive_regex(name + "!(") + r"\s*" + r"\s*,\s*".join(ws_insensitive_regex(a) for a in args)
    if not re.search(inv, text):
        raise ExtractError("no invocation %s!(%s) in %s" % (name, ", ".join(args), path))
    # parameters in order of appearance; optional group params are those inside $( )?
    params = re.findall(r"\$(\w+)\s*:\s*\w+", pattern)
    optional = set()
    for g in re.finditer(r"\$\(([^)]*)\)\s*\?", pattern):
        optional.update(re.findall(r"\$(\w+)\s*:", g.group(1)))
    bind = {}
    ai = 0
    for p in params:
        if p in optional:
            # optional params are bound by kind: lifetimes start with ', `Send`-like idents otherwise
            continue
        if ai >= len(args):
            raise ExtractError("macro %s: not enough args" % name)
        bind[p] = args[ai]
        ai += 1
    rest = args[ai:]
    for p in params:
        if p in optional:
            kind = re.search(r"\$" + p + r"\s*:\s*(\w+)", pattern).group(1)
            pick = None
            for r_ in rest:
                if kind == "lifetime" and r_.startswith("'"):
                    pick = r_
                elif kind != "lifetime" and not r_.startswith("'"):
                    pick = r_
                if pick:
                    break
            if pick:
                rest.remove(pick)
                bind[p] = pick
            else:
                bind[p] = None

    # optional groups in body: $( ... )?   (may contain `$x`)
    def expand_groups(b):
        out = []
        i = 0
        while True:
            g = b.find("$(", i)
            if g < 0:
                out.append(b[i:])
                break
            out.append(b[i:g])
            e = match_close(b, g + 1, "(", ")")
            grp = b[g + 2 : e]
            after = b[e + 1 :]
            mm = re.match(r"\s*\?", after)
            if not mm:
                raise ExtractError("macro %s: unsupported repetition" % name)
            names = re.findall(r"\$(\w+)", grp)
            if all(bind.get(nm) is not None for nm in names) and names:
                out.append(grp)
            i = e + 1 + mm.end()
        return "".join(out)

    body = expand_groups(body)
    for p, v in bind.items():
        if v is None:
            continue
        body = re.sub(r"\$" + p + r"\b", v.replace("\\", "\\\\"), body)
    if "$" in re.sub(r'"[^"]*"', "", body):
        left = re.findall(r"\$\w+", body)
        raise ExtractError("macro %s: unexpanded %s" % (name, left[:3]))
    return body


def get_text(path, macro=None, args=None):
    t = source(path)
    if macro:
        t = expand_macro(t, macro, args, path)
    return apply_gsubst(t)


# ------------------------------------------------------------------------------------------------
# code rewrites
# ------------------------------------------------------------------------------------------------
def drop_attrs_and_docs(code):
    out = []
    for line in code.split("\n"):
        s = line.strip()
        if s.startswith("///") or s.startswith("//!"):
            continue
        if re.match(r"#\[(inline|derive|must_use|allow|doc|cfg_attr)[^\]]*\]$", s):
            continue
        out.append(line)
    return "\n".join(out)


def rewrite_map_or(code, stats):
    """R4: E.map_or(D, |x| B)  ->  match E { Some(x) => B, None => D }"""
    while True:
        m = re.search(r"\.\s*map_or\s*\(", code)
        if not m:
            return code
        # receiver: walk back over a postfix chain  a.b(..).c[..]  (may span lines)
        i = m.start()
        j = i
        while j > 0:
            c = code[j - 1]
            if c in ")]":
                # jump to the matching opener
                d = 0
                k = j - 1
                while k >= 0:
                    if code[k] in ")]":
                        d += 1
                    elif code[k] in "([":
                        d -= 1
                        if d == 0:
                            break
                    k -= 1
                j = k
                continue
            if c.isalnum() or c in "_.:":
                j -= 1
                continue
            if c in " \t\n":
                # whitespace is part of the chain only if what follows it starts with '.'
                if code[j:i].lstrip().startswith(".") or code[j:i].strip() == "":
                    j -= 1
                    continue
                break
            break
        recv = code[j:i]
        lead = len(recv) - len(recv.lstrip())
        j += lead
        recv = recv.strip()
        # strip a leading keyword such as `return`/`if` that the backwards walk may have swallowed
        kw = re.match(r"(return|if|while|match|let\s+\w+\s*=)\s+", recv)
        if kw:
            j += kw.end()
            recv = recv[kw.end():]
        op = m.end() - 1
        cl = match_close(code, op, "(", ")")
        inside = code[op + 1 : cl]
        # split D , |x| B at top level
        d = 0
        cut = None
        for k, ch in enumerate(inside):
            if ch in "([{":
                d += 1
            elif ch in ")]}":
                d -= 1
            elif ch == "," and d == 0:
                cut = k
                break
        if cut is None:
            raise ExtractError("R4: cannot split map_or args")
        default = inside[:cut].strip()
        clo = inside[cut + 1 :].strip()
        cm = re.match(r"\|\s*(\w+)\s*\|\s*(.*)$", clo, re.S)
        if not cm:
            raise ExtractError("R4: map_or closure form not supported: %s" % clo[:40])
        var, body = cm.group(1), cm.group(2).strip()
        if body.startswith("{") and match_close(body, 0) == len(body) - 1:
            body = body[1:-1].strip()
        if body.endswith(","):
            body = body[:-1]
        recv_flat = re.sub(r"\s+", "", recv)
        new = "match %s { Some(%s) => %s, None => %s }" % (recv_flat, var, body, default)
        code = code[:j] + new + code[cl + 1 :]
        stats["R4"] += 1


def replace_self(body, new="self_"):
    """replace the identifier `self` (not `Self`, not `self_`) outside strings/comments"""
    out = []
    i = 0
    n = len(body)
    while i < n:
        k = skip_trivia(body, i)
        if k != i:
            out.append(body[i:k])
            i = k
            continue
        m = re.compile(r"\bself\b").match(body, i)
        if m and (i == 0 or not (body[i - 1].isalnum() or body[i - 1] == "_")):
            out.append(new)
            i = m.end()
        else:
            out.append(body[i])
            i += 1
    return "".join(out)


# ------------------------------------------------------------------------------------------------
# items
# ------------------------------------------------------------------------------------------------
def split_fns(impl_body):
    """Return list of dicts for each `fn` directly inside an impl body, plus the residue
    (associated types, consts) in order."""
    items = []
    i = 0
    n = len(impl_body)
    depth = 0
    last = 0
    while i < n:
        k = skip_trivia(impl_body, i)
        if k != i:
            i = k
            continue
        c = impl_body[i]
        if c == "{":
            depth += 1
        elif c == "}":
            depth -= 1
        elif depth == 0:
            m = re.compile(r"(pub(\([^)]*\))?\s+)?(const\s+)?fn\s+(\w+)").match(impl_body, i)
            if m and (i == 0 or not (impl_body[i - 1].isalnum() or impl_body[i - 1] == "_")):
                # signature runs to the first '{' or ';' at paren depth 0
                j = m.end()
                pd = 0
                while j < n:
                    ch = impl_body[j]
                    if ch in "(<[":
                        pd += 1 if ch != "<" else 0
                    if ch in ")]":
                        pd -= 1
                    if ch == "{" and pd == 0:
                        break
                    if ch == ";" and pd == 0:
                        break
                    # `->` contains '>' : harmless, we do not count angle brackets
                    j += 1
                pre = impl_body[last:i]
                if impl_body[j] == ";":
                    items.append(dict(kind="other", text=pre))
                    items.append(dict(kind="decl", name=m.group(4), sig=impl_body[i:j].rstrip()))
                    i = j + 1
                    last = i
                    continue
                e = match_close(impl_body, j)
                items.append(dict(kind="other", text=pre))
                items.append(
                    dict(kind="fn", name=m.group(4), sig=impl_body[i:j].rstrip(), body=impl_body[j + 1 : e])
                )
                i = e + 1
                last = i
                continue
        i += 1
    items.append(dict(kind="other", text=impl_body[last:]))
    return items


def publicize_struct(item, stats):
    item = drop_attrs_and_docs(item)
    m = re.search(r"\b(struct|enum)\s+\w+", item)
    head_end = m.end()
    # find body opener
    j = head_end
    # skip generics
    while j < len(item) and item[j] not in "{(;":
        if item[j] == "<":
            # skip balanced <>
            d = 0
            while True:
                if item[j] == "<":
                    d += 1
                elif item[j] == ">":
                    d -= 1
                    if d == 0:
                        break
                j += 1
        j += 1
    pre = item[:j]
    pre = re.sub(r"^\s*(pub(\([^)]*\))?\s+)?(struct|enum)", r"pub \3", pre.lstrip())
    if m.group(1) == "enum" or item[j] == ";":
        return pre + item[j:]
    if item[j] == "{":
        e = match_close(item, j)
        body = item[j + 1 : e]
        lines = []
        for line in body.split("\n"):
            mm = re.match(r"^(\s*)(pub(\([^)]*\))?\s+)?(\w+\s*:.*)$", line)
            if mm and not line.strip().startswith("//"):
                lines.append("%spub %s" % (mm.group(1), mm.group(4)))
                stats["R2"] += 0 if mm.group(2) and not mm.group(3) else 1
            else:
                lines.append(line)
        return pre + "{" + "\n".join(lines) + "}" + item[e + 1 :]
    else:  # tuple struct
        e = match_close(item, j, "(", ")")
        inner = item[j + 1 : e]
        parts = []
        d = 0
        cur = ""
        for ch in inner:
            if ch in "<([":
                d += 1
            elif ch in ">)]":
                d -= 1
            if ch == "," and d == 0:
                parts.append(cur)
                cur = ""
            else:
                cur += ch
        if cur.strip():
            parts.append(cur)
        np_ = []
        for p in parts:
            ps = p.strip()
            ps = re.sub(r"^pub(\([^)]*\))?\s+", "", ps)
            np_.append("pub " + ps)
            stats["R2"] += 1
        return pre + "(" + ", ".join(np_) + ")" + item[e + 1 :]


def extract_struct(path, name, kind, macro, args, stats):
    text = get_text(path, macro, args)
    ms = list(re.finditer(r"(?:pub(?:\([^)]*\))?\s+)?%s\s+%s\b" % (kind, re.escape(name)), text))
    if len(ms) != 1:
        raise ExtractError("%s %s: %d matches in %s" % (kind, name, len(ms), path))
    i = ms[0].start()
    # find end: either ';' (tuple/unit) or matching '}'
    j = ms[0].end()
    while text[j] not in "{(;":
        j += 1
    if text[j] == "{":
        e = match_close(text, j) + 1
    elif text[j] == "(":
        e = match_close(text, j, "(", ")")
        e = text.index(";", e) + 1
    else:
        e = j + 1
    item = text[i:e]
    stats["verbatim_lines"] += item.count("\n") + 1
    return publicize_struct(item, stats)


HANDLE_TRAITS = {"Observer": "HObserver", "Subscription": "HSubscription"}


class ImplSpec:
    def __init__(self):
        self.spec = []
        self.fn = {}
        self.loops = {}
        self.rewrites = []
        self.silent = []
        self.trusted = set()
        self.skipfn = set()
        self.subst = []
        self.dropwhere = []
        self.canary_skip = set()
        self.ret = {}
        self.assumes = {}
        self.only = None
        self.header_rewrites = []


def apply_contract(sig, clauses, ret="r"):
    """R5: splice contract clauses after the signature; name the return value if needed."""
    text = "\n".join(clauses)
    if re.search(r"\b%s\b" % ret, text) and "->" in sig and not re.search(r"->\s*\(\s*\w+\s*:", sig):
        # name the result: `-> T where ..` => `-> (r: T) where ..`
        m = re.search(r"->\s*", sig)
        rest = sig[m.end():]
        wm = re.search(r"\bwhere\b", rest)
        ty = rest[: wm.start()].rstrip() if wm else rest.rstrip()
        tail = rest[wm.start():] if wm else ""
        sig = sig[: m.start()] + "-> (" + ret + ": " + ty + ")" + ("\n" + tail if tail else "")
    return sig, text


def normalize_params(sig, body, stats):
    """R1b: parameter patterns that are not plain identifiers (`_`, tuple patterns) are named
    `arg_N`, and the original pattern is bound by a `let` at the top of the body."""
    m = re.search(r"\bfn\s+\w+\s*(<[^()]*>)?\s*\(", sig)
    if not m:
        return sig, body
    op = m.end() - 1
    cl = match_close(sig, op, "(", ")")
    params = []
    d = 0
    cur = ""
    for ch in sig[op + 1:cl]:
        if ch in "<([":
            d += 1
        elif ch in ">)]":
            d -= 1
        if ch == "," and d == 0:
            params.append(cur)
            cur = ""
        else:
            cur += ch
    if cur.strip():
        params.append(cur)
    new = []
    lets = []
    for k, prm in enumerate(params):
        ps = prm.strip()
        if re.match(r"(&\s*(mut\s+)?)?(mut\s+)?self\b", ps):
            new.append(prm)
            continue
        # split pattern : type at top-level colon
        d = 0
        cut = None
        for j, ch in enumerate(ps):
            if ch in "<([":
                d += 1
            elif ch in ">)]":
                d -= 1
            elif ch == ":" and d == 0 and ps[j:j+2] != "::" and (j == 0 or ps[j-1] != ":"):
                cut = j
                break
        if cut is None:
            new.append(prm)
            continue
        pat, ty = ps[:cut].strip(), ps[cut + 1:].strip()
        if re.match(r"^(mut\s+)?[A-Za-z]\w*$", pat) or re.match(r"^_\w+$", pat):
            new.append(prm)
            continue
        nm = "arg_%d" % k
        new.append(" %s: %s" % (nm, ty))
        if pat != "_":
            lets.append("\n    let %s = %s;" % (pat, nm))
        stats["R1"] += 1
    sig = sig[:op + 1] + ",".join(new) + sig[cl:]
    return sig, "".join(lets) + body


def process_fn(fn, spec, handle, stats, canary):
    name = fn["name"]
    sig = drop_attrs_and_docs(fn["sig"])
    body = fn["body"]
    stats["verbatim_lines"] += body.count("\n") + 1
    # declared rewrites
    for (fname, old, new) in spec.rewrites:
        if fname != name:
            continue
        rx = re.compile(ws_insensitive_regex(old))
        ms = list(rx.finditer(body))
        if len(ms) != 1:
            raise ExtractError("declared rewrite on %s no longer matches exactly once: %s" % (name, old))
        body = body[: ms[0].start()] + new + body[ms[0].end():]
        stats["declared_rewrites"] += 1
    body = rewrite_map_or(body, stats)
    body = drop_attrs_and_docs(body)
    # receivers
    by_value = re.search(r"\(\s*(mut\s+)?self\s*[,)]", sig) is not None
    if by_value:
        if handle:
            sig = re.sub(r"\(\s*(mut\s+)?self\s*([,)])", r"(&mut self\2", sig, count=1)
            stats["R7"] += 1
        else:
            sig = re.sub(r"\(\s*mut\s+self\s*([,)])", r"(self\1", sig, count=1)
            body = "\n    let mut self_ = self;" + replace_self(body)
            stats["R1"] += 1
    for (expr, why) in spec.assumes.get(name, []):
        e2 = replace_self(expr) if (by_value and not handle) else expr
        body = "\n    assume(%s); // ASSUMPTION: %s" % (e2, why) + body
    sig, body = normalize_params(sig, body, stats)
    # `mut x: T` parameters: Verus wants the binding immutable in the signature
    # loop invariants
    if name in spec.loops:
        for ordinal, inv in sorted(spec.loops[name].items(), reverse=True):
            ms = list(re.finditer(r"\b(while|for|loop)\b", body))
            ms = [m for m in ms if skip_trivia(body, m.start()) == m.start()]
            if not ms:
                # the body has become straight-line code: no invariant is needed any more
                stats["dropped_loop_contracts"] = stats.get("dropped_loop_contracts", 0) + 1
                continue
            if ordinal >= len(ms):
                raise ExtractError("loop %d of %s not found" % (ordinal, name))
            m = ms[ordinal]
            # header runs to the '{' that opens the loop body
            j = m.end()
            pd = 0
            while j < len(body):
                ch = body[j]
                if ch in "([":
                    pd += 1
                elif ch in ")]":
                    pd -= 1
                elif ch == "{" and pd == 0:
                    break
                j += 1
            body = body[:j] + "\n" + "\n".join(inv) + "\n" + body[j:]
    clauses = list(spec.fn.get(name, []))
    if canary and (clauses or name in spec.fn) and name not in spec.trusted and name not in spec.canary_skip:
        # vacuity canary: the entry of every contracted function must be reachable, i.e. its
        # preconditions (and the representation invariant) must be satisfiable
        body = "\n    assert(false); // CANARY" + body
    sig, ctext = apply_contract(sig, clauses, spec.ret.get(name, "r"))
    pre = ""
    if name in spec.trusted:
        pre = "#[verifier::external_body]\n"
    out = "%s%s\n%s\n{%s}\n" % (pre, sig, ctext, body)
    stats["added_lines"] += ctext.count("\n") + 1 if ctext else 0
    return out


def header_generics(header):
    """split `impl<G> Trait for Ty where W` into (G, traitpart, selfty, where)"""
    m = re.match(r"\s*impl\s*", header)
    rest = header[m.end():]
    gen = ""
    if rest.startswith("<"):
        d = 0
        for k, ch in enumerate(rest):
            if ch == "<":
                d += 1
            elif ch == ">" and rest[k - 1] != "-":
                d -= 1
                if d == 0:
                    gen = rest[1:k]
                    rest = rest[k + 1 :]
                    break
    wm = re.search(r"\bwhere\b", rest)
    where = rest[wm.end():].strip() if wm else ""
    main = rest[: wm.start()] if wm else rest
    fm = re.search(r"\bfor\b", main)
    if fm:
        trait = main[: fm.start()].strip()
        selfty = main[fm.end():].strip()
    else:
        trait = ""
        selfty = main.strip()
    return gen, trait, selfty, where


def extract_impl(path, header_lit, macro, args, handle, spec, stats, canary):
    text = get_text(path, macro, args)
    m = find_unique(text, header_lit, "%s :: %s" % (path, header_lit))
    # header continues to '{'
    j = m.end()
    while text[j] != "{":
        j += 1
    e = match_close(text, j)
    header = text[m.start() : j]
    body = text[j + 1 : e]
    stats["verbatim_lines"] += header.count("\n") + 1
    header = drop_attrs_and_docs(header)
    for (a, b) in spec.subst:
        n0 = len(re.findall(r"\b%s\b" % re.escape(a), header + body))
        if n0 == 0:
            raise ExtractError("@@subst %s: no occurrence" % a)
        header = re.sub(r"\b%s\b" % re.escape(a), b, header)
        body = re.sub(r"\b%s\b" % re.escape(a), b, body)
        stats["R10"] += 1
    for dw in spec.dropwhere:
        rx = re.compile(ws_insensitive_regex(dw) + r"\s*,?")
        if not rx.search(header):
            raise ExtractError("@@dropwhere no longer matches: %s" % dw)
        header = rx.sub("", header, count=1)
    for (a, b) in spec.header_rewrites:
        rx = re.compile(ws_insensitive_regex(a))
        if len(rx.findall(header)) != 1:
            raise ExtractError("@@rewrite_header no longer matches: %s" % a)
        header = rx.sub(b.replace("\\", "\\\\"), header, count=1)
        stats["R10"] += 1
    if handle:
        for a, b in HANDLE_TRAITS.items():
            header = re.sub(r"\b%s\b(?=\s*(<|for\b))" % a, b, header, count=1)
    if re.match(r"\s*(pub\s+)?trait\b", header):
        gen, trait, selfty, where = "", "", "Self", ""
    else:
        gen, trait, selfty, where = header_generics(header)
    out = [header.rstrip() + "\n{"]
    tm = re.match(r"Observer\s*<(.*)>\s*$", trait, re.S)
    if tm and not handle and not any("fn records" in x for x in spec.spec):
        ta = re.sub(r"\s+", " ", tm.group(1)).strip()
        spec.spec = ["  open spec fn rx(&self) -> Seq<Ev<%s>> { Seq::empty() }" % ta,
                     "  open spec fn records(&self) -> bool { false }",
                     "  open spec fn delivered(t: Seq<Ev<%s>>) -> bool { true }" % ta] + spec.spec
        stats["R6"] += 3
    if spec.spec:
        out.append("\n".join(spec.spec))
        stats["added_lines"] += len(spec.spec)
    items = split_fns(body)
    seen = set()
    silent_out = []
    for it in items:
        if it["kind"] == "other":
            t = drop_attrs_and_docs(it["text"]).strip()
            if t and spec.only is None:
                out.append(t)
            continue
        if it["kind"] == "decl":
            seen.add(it["name"])
            if spec.only is not None and it["name"] not in spec.only:
                continue
            dsig, dtext = apply_contract(drop_attrs_and_docs(it["sig"]), spec.fn.get(it["name"], []), spec.ret.get(it["name"], "r"))
            out.append("%s\n%s;" % (dsig, dtext.rstrip().rstrip(",")))
            continue
        seen.add(it["name"])
        if it["name"] in spec.skipfn or (spec.only is not None and it["name"] not in spec.only):
            continue
        out.append(process_fn(it, spec, handle, stats, canary))
        for (fname, muted) in spec.silent:
            if fname != it["name"]:
                continue
            # free function: same generics/where, downstream bound replaced by the muted trait
            sig = drop_attrs_and_docs(it["sig"])
            sig = re.sub(r"\(\s*(mut\s+)?self\s*([,)])", r"(self_: %s\2" % selfty.replace("\\", "\\\\"), sig, count=1)
            sig = re.sub(r"\(\s*&\s*mut\s+self\s*([,)])", r"(self_: &mut %s\1" % selfty.replace("\\", "\\\\"), sig, count=1)
            sig = re.sub(r"\bfn\s+%s\b" % fname, "fn silent__%s__%s" % (re.sub(r"\W+", "_", selfty)[:40], fname), sig)
            w2 = re.sub(r"\bObserver\s*<", muted + "<", where)
            g2 = re.sub(r"\bObserver\s*<", muted + "<", gen)
            # generics: merge impl generics into the fn
            if re.search(r"fn\s+\w+\s*<", sig):
                sig = re.sub(r"(fn\s+\w+\s*)<", r"\1<%s, " % g2, sig, count=1)
            else:
                sig = re.sub(r"(fn\s+\w+)", r"\1<%s>" % g2, sig, count=1)
            for am in re.finditer(r"\btype\s+(\w+)\s*=\s*([^;]+);", body):
                sig = re.sub(r"\bSelf::%s\b" % am.group(1), am.group(2).strip(), sig)
            sig = re.sub(r"\bSelf::", "<%s>::" % selfty, sig)
            b = replace_self(rewrite_map_or(it["body"], stats))
            pm = re.findall(r"[(,]\s*mut\s+(\w+)\s*:", sig)
            for p in pm:
                sig = re.sub(r"([(,]\s*)mut\s+" + p + r"(\s*:)", r"\1" + p + r"\2", sig)
                b = "\n    let mut %s = %s;" % (p, p) + b
            sig, b = normalize_params(sig, b, stats)
            b = "\n    let mut self_ = self_;" + b if "&mut" not in sig.split(")")[0] else b
            wh = ("\nwhere " + w2) if w2 else ""
            if "->" in sig and re.search(r"\bwhere\b", sig):
                raise ExtractError("silent: fn-level where not supported")
            silent_out.append("%s%s\n{%s}\n" % (sig, wh, b))
            stats["silent_obligations"] += 1
    for fname in list(spec.fn) + [s[0] for s in spec.silent] + list(spec.trusted):
        if fname not in seen:
            raise ExtractError("method %s not found in impl %s" % (fname, header_lit))
    out.append("}\n")
    return "\n".join(out) + "\n" + "\n".join(silent_out)


def extract_free_fn(path, name, macro, args, clauses, loops, rewrites, stats, canary, trusted=False):
    text = get_text(path, macro, args)
    ms = [m for m in re.finditer(r"(?:pub(?:\([^)]*\))?\s+)?fn\s+%s\b" % re.escape(name), text)]
    if len(ms) != 1:
        raise ExtractError("fn %s: %d matches in %s" % (name, len(ms), path))
    i = ms[0].start()
    items = split_fns(text[i:])
    fn = [it for it in items if it["kind"] == "fn"][0]
    spec = ImplSpec()
    spec.fn[name] = clauses
    spec.loops = {name: loops} if loops else {}
    spec.rewrites = [(name, a, b) for (a, b) in rewrites]
    if trusted:
        spec.trusted.add(name)
    fn["sig"] = re.sub(r"^(pub(\([^)]*\))?\s+)?fn", "pub fn", fn["sig"].lstrip())
    return process_fn(fn, spec, False, stats, canary)


# ------------------------------------------------------------------------------------------------
# template processing
# ------------------------------------------------------------------------------------------------
FILE_HEAD = """#![feature(allocator_api)]
#![allow(unused)]
#![allow(unused_mut)]
use vstd::prelude::*;
use std::collections::VecDeque;
use std::collections::HashSet;
use std::hash::Hash;
use std::marker::PhantomData;
verus! {
"""
FILE_TAIL = """
} // verus!
fn main() {}
"""


def parse_kv(tokens):
    kv = {}
    rest = []
    for t in tokens:
        if "=" in t and not t.startswith("="):
            k, v = t.split("=", 1)
            kv[k] = v
        else:
            rest.append(t)
    return kv, rest


def variants_of(template_text):
    for line in template_text.split("\n"):
        if line.startswith("@@variants"):
            cols = {}
            for tok in line.split()[1:]:
                k, v = tok.split("=", 1)
                cols[k] = v.split(",")
            n = len(next(iter(cols.values())))
            return [{k: v[i] for k, v in cols.items()} for i in range(n)]
    return [{}]


def generate(template_path, variant, canary=False):
    """returns (verus_source_text, stats)"""
    stats = dict(verbatim_lines=0, added_lines=0, R1=0, R2=0, R4=0, R7=0, R10=0, declared_rewrites=0,
                 silent_obligations=0, trusted_fns=0, assumes=0, R6=0, sources=[])
    raw = open(template_path).read()
    del GSUBST[:]

    def splice_includes(txt, depth=0):
        out_ = []
        for ln in txt.split("\n"):
            if ln.startswith("@@include "):
                inc = os.path.join(VERIF, "contracts", ln.split()[1])
                if depth > 4:
                    raise ExtractError("include depth")
                out_.append(splice_includes(open(inc).read(), depth + 1))
            else:
                out_.append(ln)
        return "\n".join(out_)

    raw = splice_includes(raw)
    for k, v in variant.items():
        raw = raw.replace("${%s}" % k, v)
    lines = raw.split("\n")
    out = []
    prelude = open(os.path.join(VERIF, "contracts", "prelude.rs")).read()
    i = 0
    n = len(lines)

    def collect(i):
        """collect literal lines until next @@ directive"""
        buf = []
        while i < n and not lines[i].startswith("@@"):
            buf.append(lines[i])
            i += 1
        return buf, i

    while i < n:
        line = lines[i]
        if not line.startswith("@@"):
            out.append(line)
            stats["added_lines"] += 1 if line.strip() else 0
            i += 1
            continue
        toks = line.split()
        d = toks[0]
        if d == "@@variants":
            i += 1
            continue
        if d == "@@gsubst":
            a_, b_ = line[len("@@gsubst"):].split("=>", 1)
            GSUBST.append((a_.strip(), b_.strip()))
            stats["R10"] += 1
            i += 1
            continue
        if d in ("@@struct", "@@enum"):
            kv, rest = parse_kv(toks[1:])
            path, name = rest[0], rest[1]
            args = kv["args"].split(";") if "args" in kv else None
            out.append(extract_struct(path, name, d[2:], kv.get("macro"), args, stats))
            stats["sources"].append("%s %s::%s" % (d[2:], path, name))
            i += 1
            continue
        if d == "@@type":
            kv, rest = parse_kv(toks[1:])
            path, name = rest[0], rest[1]
            text_ = get_text(path, kv.get("macro"), kv["args"].split(";") if "args" in kv else None)
            ms = list(re.finditer(r"(?:pub(?:\([^)]*\))?\s+)?type\s+%s\b[^;]*;" % re.escape(name), text_))
            if len(ms) != 1:
                raise ExtractError("type %s: %d matches in %s" % (name, len(ms), path))
            item = re.sub(r"^(pub(\([^)]*\))?\s+)?type", "pub type", ms[0].group(0))
            out.append(item)
            stats["verbatim_lines"] += item.count("\n") + 1
            stats["sources"].append("type %s::%s" % (path, name))
            i += 1
            continue
        if d == "@@impl":
            head, header_lit = line.split("::", 1)
            kv, rest = parse_kv(head.split()[1:])
            path = rest[0]
            handle = kv.get("as") == "handle"
            args = kv["args"].split(";") if "args" in kv else None
            spec = ImplSpec()
            i += 1
            while i < n and lines[i].strip() != "@@end":
                l = lines[i]
                t = l.split()
                if not l.startswith("@@"):
                    if l.strip():
                        raise ExtractError("%s:%d: stray text inside @@impl" % (template_path, i + 1))
                    i += 1
                    continue
                if t[0] == "@@spec":
                    buf, i = collect(i + 1)
                    spec.spec += buf
                elif t[0] == "@@fn":
                    buf, i = collect(i + 1)
                    spec.fn.setdefault(t[1], [])
                    spec.fn[t[1]] += [b for b in buf if b.strip()]
                    if "nocanary" in t[2:]:
                        spec.canary_skip.add(t[1])
                    for x in t[2:]:
                        if x.startswith("ret="):
                            spec.ret[t[1]] = x[4:]
                elif t[0] == "@@loop":
                    buf, i = collect(i + 1)
                    spec.loops.setdefault(t[1], {})[int(t[2])] = [b for b in buf if b.strip()]
                elif t[0] == "@@rewrite":
                    fname = t[1]
                    rest_ = l.split("::", 1)[1]
                    old, new = rest_.split("==>", 1)
                    spec.rewrites.append((fname, old.strip(), new.strip()))
                    i += 1
                elif t[0] == "@@silent":
                    spec.silent.append((t[1], t[2] if len(t) > 2 else "MutedObserver"))
                    i += 1
                elif t[0] == "@@trusted":
                    spec.trusted.add(t[1])
                    stats["trusted_fns"] += 1
                    i += 1
                elif t[0] == "@@assume":
                    parts = l.split(" :: ")
                    spec.assumes.setdefault(t[1], []).append((parts[1].strip(), parts[2].strip() if len(parts) > 2 else ""))
                    stats["assumes"] += 1
                    i += 1
                elif t[0] == "@@only":
                    spec.only = (spec.only or set()) | set(t[1:])
                    i += 1
                elif t[0] == "@@skipfn":
                    spec.skipfn.add(t[1])
                    i += 1
                elif t[0] == "@@subst":
                    a, b = l[len("@@subst"):].split("=>", 1)
                    spec.subst.append((a.strip(), b.strip()))
                    i += 1
                elif t[0] == "@@rewrite_header":
                    a, b = l[len("@@rewrite_header"):].split("==>", 1)
                    spec.header_rewrites.append((a.strip(), b.strip()))
                    i += 1
                elif t[0] == "@@dropwhere":
                    spec.dropwhere.append(l[len("@@dropwhere"):].strip())
                    i += 1
                else:
                    raise ExtractError("%s:%d: unknown directive %s" % (template_path, i + 1, t[0]))
            i += 1  # @@end
            out.append(extract_impl(path, header_lit.strip(), kv.get("macro"), args, handle, spec, stats, canary))
            stats["sources"].append("impl %s::%s%s" % (path, re.sub(r"\s+", " ", header_lit.strip()),
                                                      (" via %s!(%s)" % (kv["macro"], kv["args"])) if "macro" in kv else ""))
            continue
        if d == "@@fn":
            kv, rest = parse_kv(toks[1:])
            path, name = rest[0], rest[1]
            args = kv["args"].split(";") if "args" in kv else None
            clauses = []
            loops = {}
            rewrites = []
            i += 1
            while i < n and lines[i].strip() != "@@end":
                l = lines[i]
                if l.startswith("@@loop"):
                    buf, i = collect(i + 1)
                    loops[int(l.split()[1])] = [b for b in buf if b.strip()]
                    continue
                if l.startswith("@@rewrite"):
                    old, new = l.split("::", 1)[1].split("==>", 1)
                    rewrites.append((old.strip(), new.strip()))
                    i += 1
                    continue
                if l.strip():
                    clauses.append(l)
                i += 1
            i += 1
            trusted = "trusted" in rest[2:]
            if trusted:
                stats["trusted_fns"] += 1
            out.append(extract_free_fn(path, name, kv.get("macro"), args, clauses, loops, rewrites, stats, canary, trusted))
            stats["sources"].append("fn %s::%s" % (path, name))
            continue
        raise ExtractError("%s:%d: unknown directive %s" % (template_path, i + 1, d))
    text = FILE_HEAD + prelude + "\n// ===== unit text (extracted from /repo + contracts) =====\n" + "\n".join(out) + FILE_TAIL
    return text, stats


if __name__ == "__main__":
    tpl = sys.argv[1]
    for v in variants_of(open(tpl).read()):
        t, st = generate(tpl, v, canary="--canary" in sys.argv)
        sys.stdout.write(t)
        sys.stderr.write(json.dumps(st) + "\n")
