#!/usr/bin/env python3
"""
Engine V, part 1: mechanical extraction of real rxRust functions into single-file Verus inputs.

A *unit template* (/verif/contracts/units/*.vt) is Verus text with `@@` directives.  Everything
that is not a directive is contract text (spec fns, lemmas, annotations) and is copied as is.
Directives pull REAL text out of /repo's working tree on every run:

  @@variants K=v1,v2 [K2=w1,w2]          the unit is generated once per column; ${K} is replaced
  @@struct <file> <Name> [macro=.. args=..]   struct item, fields made pub (R2), attrs dropped (R3)
  @@enum   <file> <Name>
  @@impl <file> [macro=<m> args=<a;b;c>] [as=handle] :: <impl header, whitespace-insensitive>
      @@subst <A> => <B>                 generic instantiation used at the real use site (R10)
      @@dropwhere <text>                 drop one where-clause bound made redundant by @@subst
      @@spec                             following lines are added inside the impl (spec fns)
      @@fn <name>                        following lines: contract clauses spliced between the
                                         signature and the body (R5)
      @@loop <fn> <ordinal>              following lines: invariant/decreases of that loop
      @@rewrite <fn> :: <old> ==> <new>  declared textual rewrite of the body (counted, R8/R9)
      @@silent <fn> <MutedTrait>         extra obligation: the body verified against a downstream
                                         on which calls are forbidden
      @@trusted <fn>                     emit with #[verifier::external_body] (an ASSUMPTION)
      @@skipfn <fn>                      do not emit this method at all (inherent impls only)
  @@end
  @@fn <file> <name> [macro=.. args=..]  free function; contract lines until @@end

Rewrites applied to extracted code (all syntactic, all counted in the statistics):
  R1  by-value `self` receiver:  `fn f(mut self` -> `fn f(self`, body prefixed with
      `let mut self_ = self;` and `self` -> `self_` in the body (Verus rejects `mut self`; for a
      handle impl the receiver becomes `&mut self` instead, rule R7)
  R2  struct fields / items made `pub`
  R3  attributes (#[inline], #[derive], #[must_use]) and doc comments dropped
  R4  `E.map_or(D, |x| B)` -> `match E { Some(x) => B, None => D }`  (definition of Option::map_or;
      Verus cannot reason about an un-annotated closure)
  R5  contract text spliced in (annotations only)
  R6  boilerplate spec fns for non-recording observers appended
  R7  handle impls: trait `Observer`->`HObserver`, `Subscription`->`HSubscription`, consuming
      receivers become `&mut self`
A lost anchor, an ambiguous anchor or a rewrite that no longer matches raises ExtractError, which
the runner reports as UNDECIDED (exit 2) — never as a violation.
"""
import os, re, sys, json, hashlib

REPO = os.environ.get("RXRUST_REPO", "/repo")
VERIF = os.path.dirname(os.path.dirname(os.path.abspath(__file__)))


class ExtractError(Exception):
    pass


# ------------------------------------------------------------------------------------------------
# lexical helpers
# ------------------------------------------------------------------------------------------------
def skip_trivia(s, i):
    """If position i starts a comment, string or char literal, return index just past it, else i."""
    n = len(s)
    if s.startswith("//", i):
        j = s.find("\n", i)
        return n if j < 0 else j
    if s.startswith("/*", i):
        j = s.find("*/", i + 2)
        return n if j < 0 else j + 2
    c = s[i]
    if c == '"':
        j = i + 1
        while j < n:
            if s[j] == "\\":
                j += 2
                continue
            if s[j] == '"':
                return j + 1
            j += 1
        return n
    if c == "'":
        # char literal 'x' or '\n' ; lifetime 'a otherwise
        if i + 2 < n and s[i + 1] == "\\":
            j = s.find("'", i + 2)
            return j + 1 if j > 0 else i + 1
        if i + 2 < n and s[i + 2] == "'":
            return i + 3
        return i  # lifetime
    return i


def mask_trivia(s):
    """s with the content of comments and string/char literals blanked out (same length)"""
    out = list(s)
    j, n = 0, len(s)
    while j < n:
        k = skip_trivia(s, j)
        if k != j:
            keep = s[j:k].startswith("/*R9:")      # generator markers stay visible
            if not keep:
                for q in range(j, k):
                    if out[q] != "\n":
                        out[q] = " "
            j = k
        else:
            j += 1
    return "".join(out)


def match_close(s, i, open_c="{", close_c="}"):
    """s[i] == open_c; return index of the matching close_c."""
    assert s[i] == open_c, (s[i : i + 20], open_c)
    depth = 0
    n = len(s)
    j = i
    while j < n:
        k = skip_trivia(s, j)
        if k != j:
            j = k
            continue
        c = s[j]
        if c == open_c:
            depth += 1
        elif c == close_c:
            depth -= 1
            if depth == 0:
                return j
        j += 1
    raise ExtractError("unbalanced %s at %d" % (open_c, i))


def ws_insensitive_regex(lit):
    lit = re.sub(r"\s+", "", lit)
    return r"\s*".join(re.escape(c) for c in lit)


def find_unique(text, lit, what):
    rx = re.compile(ws_insensitive_regex(lit))
    ms = list(rx.finditer(text))
    # ignore matches inside line comments
    ms = [m for m in ms if "//" not in text[text.rfind("\n", 0, m.start()) + 1 : m.start()]]
    if not ms:
        raise ExtractError("anchor not found: %s" % what)
    if len(ms) > 1:
        raise ExtractError("anchor ambiguous (%d matches): %s" % (len(ms), what))
    return ms[0]


def strip_tests(text):
    """drop `#[cfg(test)] mod x { .. }` blocks so that anchors never land in test code"""
    out = []
    i = 0
    for m in re.finditer(r"#\[cfg\((?:all\()?test[^\]]*\]\s*(?:pub\s+)?mod\s+\w+\s*\{", text):
        if m.start() < i:
            continue
        out.append(text[i : m.start()])
        i = match_close(text, m.end() - 1) + 1
    out.append(text[i:])
    return "".join(out)


_src_cache = {}
GSUBST = []   # [(literal, replacement)] set per template run by @@gsubst


def apply_gsubst(t, stats=None):
    for (a, b) in GSUBST:
        if a.startswith("re:"):
            t, n = re.subn(a[3:], b, t)
            if stats is not None and n:
                stats["R10"] += n
            continue
        rx = re.compile(ws_insensitive_regex(a))
        t, n = rx.subn(b.replace("\\", "\\\\"), t)
        if stats is not None and n:
            stats["R10"] += n
    return t


def source(path):
    p = os.path.join(REPO, path)
    if p not in _src_cache:
        if not os.path.exists(p):
            raise ExtractError("source file missing: %s" % path)
        _src_cache[p] = strip_tests(open(p).read())
    return _src_cache[p]


# ------------------------------------------------------------------------------------------------
# macro_rules! instantiation (first arm, `$x` params and `$( .. )?` optional groups)
# ------------------------------------------------------------------------------------------------
def _tokenize_pattern(pat):
    """macro pattern -> list of tokens: ('frag', name, kind) | ('opt', [tokens]) | ('lit', text)"""
    toks = []
    i = 0
    n = len(pat)
    while i < n:
        c = pat[i]
        if c.isspace():
            i += 1
            continue
        if pat.startswith("$(", i):
            e = match_close(pat, i + 1, "(", ")")
            inner = pat[i + 2:e]
            j = e + 1
            while j < n and pat[j].isspace():
                j += 1
            if j < n and pat[j] == "?":
                toks.append(("opt", _tokenize_pattern(inner)))
                i = j + 1
                continue
            mtt = re.match(r"\s*\$(\w+)\s*:\s*tt\s*$", inner)
            if j < n and pat[j] == "*" and mtt:
                toks.append(("rest", mtt.group(1)))      # `$($x:tt)*` : the rest of the invocation, raw
                i = j + 1
                continue
            raise ExtractError("macro pattern: only `$( .. )?` and `$($x:tt)*` groups are supported")
        m = re.compile(r"\$(\w+)\s*:\s*(\w+)").match(pat, i)
        if m:
            toks.append(("frag", m.group(1), m.group(2)))
            i = m.end()
            continue
        toks.append(("lit", c))
        i += 1
    return toks


def _match_tokens(toks, text, pos, bind):
    """greedy matcher without backtracking except for optional groups; returns new pos or None"""
    n = len(text)

    def skip_ws(p):
        while p < n and text[p].isspace():
            p += 1
        return p

    for k, t in enumerate(toks):
        pos = skip_ws(pos)
        if t[0] == "lit":
            if pos < n and text[pos] == t[1]:
                pos += 1
            else:
                return None
        elif t[0] == "frag":
            name, kind = t[1], t[2]
            if kind == "ident":
                m = re.compile(r"[A-Za-z_]\w*").match(text, pos)
                if not m:
                    return None
                bind[name] = m.group(0)
                pos = m.end()
            elif kind == "lifetime":
                m = re.compile(r"'\w+").match(text, pos)
                if not m:
                    return None
                bind[name] = m.group(0)
                pos = m.end()
            else:  # ty / expr / path / tt: up to a top-level ',' ';' '{' or the end
                d = 0
                j = pos
                while j < n:
                    ch = text[j]
                    if ch in "<([":
                        d += 1
                    elif ch in ">)]":
                        if ch == ">" and j > 0 and text[j - 1] == "-":
                            pass
                        else:
                            d -= 1
                    elif d == 0 and ch in ",;{":
                        break
                    j += 1
                val = text[pos:j].strip()
                if not val:
                    return None
                bind[name] = val
                pos = j
        elif t[0] == "rest":
            bind[t[1]] = text[pos:].strip()
            pos = n
        elif t[0] == "opt":
            b2 = dict(bind)
            p2 = _match_tokens(t[1], text, pos, b2)
            if p2 is not None:
                bind.update(b2)
                pos = p2
            else:
                for nm in _frag_names(t[1]):
                    bind.setdefault(nm, None)
    return pos


def _frag_names(toks):
    out = []
    for t in toks:
        if t[0] == "rest":
            out.append(t[1])
        if t[0] == "frag":
            out.append(t[1])
        elif t[0] == "opt":
            out += _frag_names(t[1])
    return out


def macro_def(text, name, path):
    m = re.search(r"macro_rules!\s*" + re.escape(name) + r"\s*\{", text)
    if not m:
        raise ExtractError("macro %s not found in %s" % (name, path))
    body_end = match_close(text, m.end() - 1)
    inner = text[m.end():body_end]
    masked = mask_trivia(inner)
    arms = []
    pos = 0
    while True:
        i = masked.find("(", pos)
        if i < 0:
            break
        j = match_close(inner, i, "(", ")")
        k = masked.find("{", j)
        if k < 0:
            break
        l = match_close(inner, k)
        arms.append((inner[i + 1:j], inner[k + 1:l]))
        pos = l + 1
    if not arms:
        raise ExtractError("macro %s: no arm found in %s" % (name, path))
    return arms


def instantiate_macro(text, name, inv_args, path, depth=0):
    # the first arm whose pattern matches the invocation (macro_rules! semantics)
    chosen = None
    arms = macro_def(text, name, path)
    for (pattern, body) in arms:
        try:
            toks = _tokenize_pattern(pattern)
        except ExtractError:
            continue
        bind = {}
        pos = _match_tokens(toks, inv_args, 0, bind)
        if pos is not None and inv_args[pos:].strip() in ("", ","):
            chosen = (pattern, body, toks, bind)
            break
    if chosen is None:
        raise ExtractError("macro %s: invocation `%s` does not match pattern `%s`" % (name, inv_args, arms[0][0].strip()))
    pattern, body, toks, bind = chosen
    for nm in _frag_names(toks):
        bind.setdefault(nm, None)

    def expand_groups(b):
        out = []
        i = 0
        while True:
            g = b.find("$(", i)
            if g < 0:
                out.append(b[i:])
                break
            out.append(b[i:g])
            e = match_close(b, g + 1, "(", ")")
            grp = b[g + 2:e]
            mm = re.match(r"\s*\?", b[e + 1:])
            if not mm:
                raise ExtractError("macro %s: unsupported repetition in body" % name)
            names = re.findall(r"\$(\w+)", grp)
            if names and all(bind.get(nm) is not None for nm in names):
                out.append(expand_groups(grp))
            i = e + 1 + mm.end()
        return "".join(out)

    for t_ in toks:
        if t_[0] == "rest":
            body = re.sub(r"\$\(\s*\$%s\s*\)\s*\*" % t_[1], (bind.get(t_[1]) or "").replace("\\", "\\\\"), body)
    body = expand_groups(body)
    for p_, v in bind.items():
        if v is None:
            continue
        body = re.sub(r"\$" + p_ + r"\b", v.replace("\\", "\\\\"), body)
    left = re.findall(r"\$\w+", re.sub(r'"[^"]*"', "", body))
    if left:
        raise ExtractError("macro %s: unexpanded %s" % (name, left[:3]))
    # an arm that delegates to another arm of the same macro
    for _ in range(3):
        rm_ = re.search(r"\b" + re.escape(name) + r"!\s*\(", mask_trivia(body))
        if not rm_:
            break
        if depth > 3:
            raise ExtractError("macro %s: recursion depth" % name)
        re_ = match_close(body, rm_.end() - 1, "(", ")")
        tail_ = body[re_ + 1:]
        if tail_.lstrip().startswith(";"):
            tail_ = tail_.lstrip()[1:]
        body = body[:rm_.start()] + instantiate_macro(text, name, body[rm_.end():re_], path, depth + 1) + tail_
    return body


def find_invocations(text, name):
    """[(start, end, args_text)] of `name!( .. )` invocations outside the macro definitions"""
    res = []
    for m in re.finditer(r"\b" + re.escape(name) + r"!\s*\(", text):
        e = match_close(text, m.end() - 1, "(", ")")
        res.append((m.start(), e + 1, text[m.end():e]))
    return res


def expand_macro(text, name, args, path):
    """instantiate macro `name` with the invocation in the file whose arguments equal `args`"""
    want = re.sub(r"\s+", "", ",".join(args))
    for (s_, e_, a) in find_invocations(text, name):
        if re.sub(r"\s+", "", a).rstrip(",") == want:
            return instantiate_macro(text, name, a, path)
    # the macro may have gained trailing parameters: the one invocation whose LEADING arguments are the
    # given ones is the same instantiation
    pre = [a for (s_, e_, a) in find_invocations(text, name) if re.sub(r"\s+", "", a).startswith(want + ",")]
    if len(pre) == 1:
        return instantiate_macro(text, name, pre[0], path)
    raise ExtractError("no invocation %s!(%s) in %s" % (name, ", ".join(args), path))


def expand_inline_macros(item_text, file_text, path, stats):
    """expand invocations of file-local macro_rules inside an extracted item (e.g. an impl body
    that consists of `impl_observer_methods!(Item { clone }, Err { clone });`)"""
    for _ in range(8):
        m = None
        for mm in re.finditer(r"\b(\w+)!\s*\(", item_text):
            if re.search(r"macro_rules!\s*" + re.escape(mm.group(1)) + r"\s*\{", file_text):
                m = mm
                break
        if not m:
            return item_text
        e = match_close(item_text, m.end() - 1, "(", ")")
        exp = instantiate_macro(file_text, m.group(1), item_text[m.end():e], path)
        tail = item_text[e + 1:]
        if tail.lstrip().startswith(";"):
            tail = tail.lstrip()[1:]
        item_text = item_text[:m.start()] + exp + tail
        stats["inline_macro_expansions"] = stats.get("inline_macro_expansions", 0) + 1
    raise ExtractError("macro expansion depth exceeded in %s" % path)


def get_text(path, macro=None, args=None):
    t = source(path)
    if macro:
        t = expand_macro(t, macro, args, path)
    return apply_gsubst(t)


# ------------------------------------------------------------------------------------------------
# code rewrites
# ------------------------------------------------------------------------------------------------
def drop_attrs_and_docs(code):
    out = []
    for line in code.split("\n"):
        s = line.strip()
        if s.startswith("///") or s.startswith("//!"):
            continue
        if re.match(r"#\[(inline|derive|must_use|allow|doc|cfg_attr|pin)[^\]]*\]$", s):
            continue
        out.append(line)
    return "\n".join(out)


def rewrite_map_or(code, stats):
    """R4: E.map_or(D, |x| B)  ->  match E { Some(x) => B, None => D }"""
    while True:
        m = re.search(r"\.\s*map_or\s*\(", code)
        if not m:
            return code
        # receiver: walk back over a postfix chain  a.b(..).c[..]  (may span lines)
        i = m.start()
        j = i
        while j > 0:
            c = code[j - 1]
            if c in ")]":
                # jump to the matching opener
                d = 0
                k = j - 1
                while k >= 0:
                    if code[k] in ")]":
                        d += 1
                    elif code[k] in "([":
                        d -= 1
                        if d == 0:
                            break
                    k -= 1
                j = k
                continue
            if c.isalnum() or c in "_.:":
                j -= 1
                continue
            if c in " \t\n":
                # whitespace is part of the chain only if what follows it starts with '.'
                if code[j:i].lstrip().startswith(".") or code[j:i].strip() == "":
                    j -= 1
                    continue
                break
            break
        recv = code[j:i]
        lead = len(recv) - len(recv.lstrip())
        j += lead
        recv = recv.strip()
        # strip a leading keyword such as `return`/`if` that the backwards walk may have swallowed
        kw = re.match(r"(return|if|while|match|let\s+\w+\s*=)\s+", recv)
        if kw:
            j += kw.end()
            recv = recv[kw.end():]
        op = m.end() - 1
        cl = match_close(code, op, "(", ")")
        inside = code[op + 1 : cl]
        # split D , |x| B at top level
        d = 0
        cut = None
        for k, ch in enumerate(inside):
            if ch in "([{":
                d += 1
            elif ch in ")]}":
                d -= 1
            elif ch == "," and d == 0:
                cut = k
                break
        if cut is None:
            raise ExtractError("R4: cannot split map_or args")
        default = inside[:cut].strip()
        clo = inside[cut + 1 :].strip()
        cm = re.match(r"\|\s*(\w+)\s*\|\s*(.*)$", clo, re.S)
        if not cm:
            raise ExtractError("R4: map_or closure form not supported: %s" % clo[:40])
        var, body = cm.group(1), cm.group(2).strip()
        if body.startswith("{") and match_close(body, 0) == len(body) - 1 and ";" not in body:
            body = body[1:-1].strip()
        if body.endswith(","):
            body = body[:-1]
        recv_flat = re.sub(r"\s+", "", recv)
        new = "match %s { Some(%s) => %s, None => %s }" % (recv_flat, var, body, default)
        code = code[:j] + new + code[cl + 1 :]
        stats["R4"] = stats.get("R4", 0) + 1


def _closure_at(code, pos):
    """code[pos] == '|' : parse `|x| BODY` up to the closing ')' of the enclosing call.
    returns (var, body_text, index_of_closing_paren)"""
    m = re.compile(r"\|\s*(mut\s+)?(\w+)\s*\|\s*").match(code, pos)
    tuple_pat = None
    if not m:
        # `|(a, b)| BODY`: the tuple is bound inside the body
        m = re.compile(r"\|\s*(\((?:[\w\s,&]|\bmut\b)*\))\s*\|\s*").match(code, pos)
        if not m:
            raise ExtractError("R9: closure form not supported near: %s" % code[pos:pos + 40])
        tuple_pat = m.group(1)
    var = "pair_" if tuple_pat else m.group(2)
    # find the ')' that closes the call whose '(' precedes pos
    d = 0
    j = m.end()
    n = len(code)
    while j < n:
        k = skip_trivia(code, j)
        if k != j:
            j = k
            continue
        ch = code[j]
        if ch in "([{":
            d += 1
        elif ch in ")]}":
            if d == 0:
                break
            d -= 1
        j += 1
    body = code[m.end():j].strip()
    if body.endswith(","):
        body = body[:-1].rstrip()
    if body.startswith("{") and match_close(body, 0) == len(body) - 1:
        body = body[1:-1].strip()
    if tuple_pat:
        body = "let %s = pair_; %s" % (tuple_pat, body)
    return var, body, j


def _receiver_start(code, i):
    """start index of the postfix-chain receiver that ends at i (exclusive)"""
    j = i
    while j > 0:
        c = code[j - 1]
        if c in ")]":
            d = 0
            k = j - 1
            while k >= 0:
                if code[k] in ")]":
                    d += 1
                elif code[k] in "([":
                    d -= 1
                    if d == 0:
                        break
                k -= 1
            j = k
            continue
        if c.isalnum() or c in "_.:":
            j -= 1
            continue
        if c in " \t\n":
            if code[j:i].lstrip().startswith(".") or code[j:i].strip() == "":
                j -= 1
                continue
            break
        break
    while j < i and code[j] in " \t\n":
        j += 1
    return j



def rewrite_entry_or_insert_with(code, stats):
    """R17: `M.entry(K).or_insert_with(|| B)` by its definition (assumed std contract): the closure runs iff
    the key is absent, its result is stored under the key, and a mutable reference to the stored value is
    returned ->  `{ let k_ = K; let fresh_ = if M.contains_key(&k_) { None } else { Some(B) }; M.slot_(k_, fresh_) }`
    (`slot_` is the prelude's stand-in for the occupied / vacant entry).  The closure body B is copied verbatim
    and becomes straight-line code, so what it does to the state it captures is verified."""
    # R17c: the entry bound to a local that is used exactly once afterwards (`let e = M.entry(k); e.or_insert_with(..)` /
    # `match e { .. }`) is the entry expression itself (an `Entry` does nothing until it is consumed)
    for _ in range(4):
        masked = mask_trivia(code)
        lm_ = re.search(r"\blet\s+(?:mut\s+)?(\w+)\s*=\s*((?:[\w.]|\(\))+?\s*\.\s*entry\s*\()", masked)
        if not lm_:
            break
        op_ = lm_.end() - 1
        cl_ = match_close(code, op_, "(", ")")
        sm_ = re.compile(r"\s*;").match(masked, cl_ + 1)
        nm_ = lm_.group(1)
        uses = list(re.finditer(r"(?<![\w.])%s\b" % re.escape(nm_), masked[cl_ + 1:]))
        if not sm_ or len(uses) != 1:
            break
        expr_ = code[lm_.start(2):cl_ + 1]
        u0 = cl_ + 1 + uses[0].start()
        code = code[:lm_.start()] + code[sm_.end():u0] + expr_ + code[u0 + len(nm_):]
        stats["R17"] = stats.get("R17", 0) + 1
    # R17b: the same API spelled out — `match M.entry(K) { Entry::Occupied(o) => A, Entry::Vacant(v) => B }` =
    # `{ let k_ = K; if M.contains_key(&k_) { A } else { B } }` where, inside A, `o.into_mut()` is the stored value
    # (`M.slot_(k_, None)`) and, inside B, `v.insert(X)` stores X under the key and yields it (`M.slot_(k_, Some(X))`)
    for _ in range(4):
        masked = mask_trivia(code)
        m = re.search(r"\bmatch\s+((?:[\w.]|\(\))+?)\s*\.\s*entry\s*\(", masked)
        if not m:
            break
        recv = re.sub(r"\s+", "", m.group(1))
        op = m.end() - 1
        cl = match_close(code, op, "(", ")")
        key = code[op + 1:cl].strip()
        mo = re.compile(r"\s*\{").match(masked, cl + 1)
        if not mo:
            raise ExtractError("R17b: match on entry(..) without arms")
        ob = mo.end() - 1
        cb = match_close(code, ob)
        arms = {}
        pos = ob + 1
        while True:
            am = re.compile(r"\s*(?:\w+\s*::\s*)*Entry\s*::\s*(Occupied|Vacant)\s*\(\s*(?:mut\s+)?(\w+)\s*\)\s*=>\s*").match(masked, pos)
            if not am:
                break
            if masked[am.end()] == "{":
                ae_ = match_close(code, am.end())
                arm_body = code[am.end():ae_ + 1]
                pos = ae_ + 1
            else:
                d_ = 0
                k = am.end()
                while k < cb:
                    ch = masked[k]
                    if ch in "([{":
                        d_ += 1
                    elif ch in ")]}":
                        d_ -= 1
                    elif ch == "," and d_ == 0:
                        break
                    k += 1
                arm_body = code[am.end():k]
                pos = k
            mm_ = re.compile(r"\s*,").match(masked, pos)
            if mm_:
                pos = mm_.end()
            arms[am.group(1)] = (am.group(2), arm_body)
        if set(arms) != {"Occupied", "Vacant"} or masked[pos:cb].strip():
            raise ExtractError("R17b: match on entry(..) with arms other than Occupied / Vacant")
        ov, oa = arms["Occupied"]
        vv, va = arms["Vacant"]
        oa2, n1 = re.subn(r"\b%s\s*\.\s*into_mut\s*\(\s*\)" % re.escape(ov), "%s.slot_(k_, None)" % recv, oa)
        vm_ = re.search(r"\b%s\s*\.\s*insert\s*\(" % re.escape(vv), mask_trivia(va))
        if n1 != 1 or not vm_ or len(re.findall(r"\b%s\b" % re.escape(ov), mask_trivia(oa))) != 1 or len(re.findall(r"\b%s\b" % re.escape(vv), mask_trivia(va))) != 1:
            raise ExtractError("R17b: entry arms use the entry otherwise than by into_mut() / insert(..)")
        ie_ = match_close(va, vm_.end() - 1, "(", ")")
        va2 = va[:vm_.start()] + "%s.slot_(k_, Some(%s))" % (recv, va[vm_.end():ie_]) + va[ie_ + 1:]
        new = "{ let k_ = %s; if %s.contains_key(&k_) { %s } else { %s } }" % (key, recv, oa2, va2)
        code = code[:m.start()] + new + code[cb + 1:]
        stats["R17"] = stats.get("R17", 0) + 1
    for _ in range(4):
        masked = mask_trivia(code)
        m = re.search(r"\.\s*entry\s*\(", masked)
        if not m:
            break
        op = m.end() - 1
        cl = match_close(code, op, "(", ")")
        m2 = re.compile(r"\s*\.\s*or_insert_with\s*\(\s*(move\s*)?\|\s*\|\s*").match(masked, cl + 1)
        if not m2:
            raise ExtractError("R17: entry(..) not followed by or_insert_with(|| ..)")
        op2 = masked.index("(", cl + 1)
        cl2 = match_close(code, op2, "(", ")")
        rs = _receiver_start(code, m.start())
        recv = re.sub(r"\s+", "", code[rs:m.start()])
        key = code[op + 1:cl].strip()
        body = code[m2.end():cl2].strip()
        if body.endswith(","):
            body = body[:-1].rstrip()
        new = ("{ let k_ = %s; let fresh_ = if %s.contains_key(&k_) { None } else { Some(%s) }; %s.slot_(k_, fresh_) }"
               % (key, recv, body, recv))
        code = code[:rs] + new + code[cl2 + 1:]
        stats["R17"] = stats.get("R17", 0) + 1
    return code

def rewrite_iter_adapters(code, stats):
    """R9: definitions of the std iterator adapters used by rxRust, as loops.
      R9a  E.iter_mut().for_each(|p| B)                 ->  index loop over E, p = &mut E[i]
      R9b  E.into_iter()[.filter(|x| C)].for_each(|y| B) ->  `for y in it_: E { if C { B } }`
      R9c  E.retain(|x| C)                              ->  index loop removing the elements failing C
      R9d  E.iter().all(|x| C)                          ->  short-circuit index loop yielding a bool
      R9e  E.iter().filter(|x| C).count()               ->  counting index loop
    Assumed std contract: the adapters visit the elements once, in order."""
    flat = lambda e: re.sub(r"\s+", "", e)
    # R9j: a lazy adapter chain bound to a local that is consumed by the very next statement
    # (`let alive = E.into_iter().filter(..); alive.for_each(..)`) is the chain itself (the adapters do
    # nothing until they are consumed): the binding is inlined so that the rules below apply
    for _ in range(4):
        masked = mask_trivia(code)
        lm_ = re.search(r"let\s+(?:mut\s+)?(\w+)\s*=\s*", masked)
        found = False
        for lm_ in re.finditer(r"let\s+(?:mut\s+)?(\w+)\s*=\s*", masked):
            # end of the let statement: first `;` at depth 0
            d_ = 0
            e_ = None
            for k in range(lm_.end(), len(masked)):
                ch = masked[k]
                if ch in "([{":
                    d_ += 1
                elif ch in ")]}":
                    d_ -= 1
                    if d_ < 0:
                        break
                elif ch == ";" and d_ == 0:
                    e_ = k
                    break
            if e_ is None:
                continue
            init = code[lm_.end():e_]
            if not re.search(r"\.\s*(into_iter|iter|iter_mut)\s*\(\s*\)", init) or not re.search(r"\.\s*(filter|map|flatten)\s*\(", init):
                continue
            nm_ = lm_.group(1)
            um_ = re.match(r"\s*%s\s*\.\s*(for_each|count|all|any)\s*\(" % re.escape(nm_), masked[e_ + 1:])
            if not um_ or len(re.findall(r"\b%s\b" % re.escape(nm_), masked[e_ + 1:])) != 1:
                continue
            use_at = e_ + 1 + um_.start() + len(um_.group(0)) - len(um_.group(0).lstrip())
            ws_ = len(um_.group(0)) - len(um_.group(0).lstrip())
            s_use = e_ + 1 + ws_
            code = code[:lm_.start()] + code[e_ + 1:s_use] + init.strip() + code[s_use + len(nm_):]
            stats["R9"] = stats.get("R9", 0) + 1
            found = True
            break
        if not found:
            break
    # R9i: `E.drain(..)` (consumed completely by a `for` loop or an adapter chain) = all elements of E, in
    # order, E left empty — the prelude's `drain_all_()`, followed by `.into_iter()`
    for n_ in range(4):
        m = re.search(r"\.\s*drain\(\s*(?:\.\.)?\s*\)", code)
        if not m:
            break
        rs = _receiver_start(code, m.start())
        recv = code[rs:m.start()]
        masked = mask_trivia(code)
        k_ = max(masked.rfind(";", 0, rs), masked.rfind("{", 0, rs), masked.rfind("}", 0, rs))
        # `let it = RECV.drain(..);` (the drained iterator bound to a local that a loop then consumes): the local is
        # the collection of drained elements itself
        lb_ = re.search(r"\blet\s+(?:mut\s+)?(\w+)\s*=\s*$", masked[k_ + 1:rs])
        if lb_ and re.compile(r"\s*;").match(masked, m.end()):
            code = code[:k_ + 1] + "\n        let mut %s = %s.drain_all_()" % (lb_.group(1), flat(recv)) + code[m.end():]
            stats["R9"] = stats.get("R9", 0) + 1
            continue
        # a `for x in RECV.drain(..)` header: hoist in front of the `for`
        fm = re.search(r"\bfor\s+\w+\s+in\s*$", masked[k_ + 1:rs])
        ins = k_ + 1
        name_ = "drained%d_" % n_
        code = (code[:ins] + "\n        let mut %s = %s.drain_all_();\n" % (name_, flat(recv))
                + code[ins:rs] + name_ + ".into_iter()" + code[m.end():])
        stats["R9"] = stats.get("R9", 0) + 1
    # R9k: a tuple pattern in a `for` header is bound inside the body (`for (a, b) in E {` = `for pair_ in E { let (a, b) = pair_;`)
    for _ in range(6):
        m = re.search(r"\bfor\s+(\((?:[\w\s,&]|\bmut\b)*\))\s+in\s+([^{;]+?)\s*\{", code)
        if not m:
            break
        code = code[:m.start()] + "for pair_ in %s { let %s = pair_;" % (m.group(2).strip(), m.group(1)) + code[m.end():]
        stats["R9"] = stats.get("R9", 0) + 1
    # R9f/R9g: explicit `for` loops over the same collections are brought to the same normal form,
    # so that a unit's loop contracts do not depend on which of the two spellings the code uses
    for _ in range(10):
        m = re.search(r"\bfor\s+(\w+)\s+in\s+((?:[\w.]|\(\))+?)\.iter_mut\(\)\s*\{", code)
        if m:
            ob = m.end() - 1
            cb = match_close(code, ob)
            var, recv, body = m.group(1), flat(m.group(2)), code[ob + 1:cb]
            new = ("{ let mut i_ = 0usize; while /*R9:E=%s;X=%s*/ i_ < %s.len() { let %s = &mut %s[i_]; { %s } i_ += 1; } }"
                   % (recv, var, recv, var, recv, body.strip()))
            code = code[:m.start()] + new + code[cb + 1:]
            stats["R9"] = stats.get("R9", 0) + 1
            continue
        m = re.search(r"\bfor\s+(\w+)\s+in\s+(?!it_\s*:)((?:[\w.]|\(\))+?)(\.into_iter\(\))?\s*\{", code)
        if m and not re.search(r"\.(iter|drain|keys|values|chars|bytes|lines|enumerate|rev|zip)\(", m.group(2)) and not re.match(r"^\d", m.group(2)) and ".." not in m.group(2):
            code = code[:m.start()] + "for /*R9:E=%s;X=%s*/ %s in it_: %s {" % (flat(m.group(2)), m.group(1), m.group(1), flat(m.group(2))) + code[m.end():]
            stats["R9"] = stats.get("R9", 0) + 1
            continue
        break
    for _ in range(20):
        m = re.search(r"\.\s*iter_mut\(\)\s*\.\s*for_each\s*\(\s*(?=\|)", code)
        if m:
            rs = _receiver_start(code, m.start())
            recv = flat(code[rs:m.start()])
            var, body, cl = _closure_at(code, m.end())
            new = ("{ let mut i_ = 0usize; while /*R9:E=%s;X=%s*/ i_ < %s.len() { let %s = &mut %s[i_]; { %s } i_ += 1; } }"
                   % (recv, var, recv, var, recv, body))
            end = cl + 1
            code = code[:rs] + new + code[end:]
            stats["R9"] = stats.get("R9", 0) + 1
            continue
        m = re.search(r"\.\s*into_iter\(\)\s*(\.\s*filter\s*\(\s*(?=\|))?", code)
        if m and re.compile(r"\s*(\|)", ).match(code, m.end()) and m.group(1):
            rs = _receiver_start(code, m.start())
            recv = flat(code[rs:m.start()])
            fvar, fbody, fcl = _closure_at(code, m.end())
            m2 = re.compile(r"\s*\.\s*for_each\s*\(\s*(?=\|)").match(code, fcl + 1)
            if not m2:
                raise ExtractError("R9b: into_iter().filter(..) not followed by for_each")
            var, body, cl = _closure_at(code, m2.end())
            new = ("for /*R9:E=%s;X=%s*/ %s in it_: %s { if { let %s = &%s; %s } { %s } }" % (recv, var, var, recv, fvar, var, fbody, body))
            code = code[:rs] + new + code[cl + 1:]
            stats["R9"] = stats.get("R9", 0) + 1
            continue
        m = re.search(r"\.\s*into_iter\(\)\s*\.\s*flatten\(\)\s*\.\s*for_each\s*\(\s*(?=\|)", code)
        if m:
            # R9h: `E.into_iter().flatten().for_each(|x| B)` over a collection of Options =
            # `for x_ in E { if let Some(x) = x_ { B } }` (definition of Option's IntoIterator)
            rs = _receiver_start(code, m.start())
            recv = flat(code[rs:m.start()])
            var, body, cl = _closure_at(code, m.end())
            new = "for /*R9:E=%s;X=%s_*/ %s_ in it_: %s { if let Some(%s) = %s_ { %s; } }" % (recv, var, var, recv, var, var, body)
            code = code[:rs] + new + code[cl + 1:]
            stats["R9"] = stats.get("R9", 0) + 1
            continue
        m = re.search(r"\.\s*into_iter\(\)\s*\.\s*for_each\s*\(\s*(?=\|)", code)
        if m:
            rs = _receiver_start(code, m.start())
            recv = flat(code[rs:m.start()])
            var, body, cl = _closure_at(code, m.end())
            new = "for /*R9:E=%s;X=%s*/ %s in it_: %s { %s }" % (recv, var, var, recv, body)
            code = code[:rs] + new + code[cl + 1:]
            stats["R9"] = stats.get("R9", 0) + 1
            continue
        m = re.search(r"\.\s*retain\s*\(\s*(?=\|)", code)
        if m:
            rs = _receiver_start(code, m.start())
            recv = flat(code[rs:m.start()])
            var, body, cl = _closure_at(code, m.end())
            new = ("{ let mut i_ = 0usize; while /*R9:E=%s;X=%s*/ i_ < %s.len() { let keep_ = { let %s = &%s[i_]; %s }; "
                   "if keep_ { i_ += 1; } else { %s.remove(i_); } } }" % (recv, var, recv, var, recv, body, recv))
            code = code[:rs] + new + code[cl + 1:]
            stats["R9"] = stats.get("R9", 0) + 1
            continue
        m = re.search(r"\.\s*iter\(\)\s*\.\s*filter\s*\(\s*(?=\|)", code)
        if m:
            rs = _receiver_start(code, m.start())
            recv = flat(code[rs:m.start()])
            var, body, cl = _closure_at(code, m.end())
            m2 = re.compile(r"\s*\.\s*count\s*\(\s*\)").match(code, cl + 1)
            if not m2:
                raise ExtractError("R9e: iter().filter(..) not followed by count()")
            new = ("({ let mut n_ = 0usize; let mut i_ = 0usize; while /*R9:E=%s;X=%s*/ i_ < %s.len() { let %s = &%s[i_]; "
                   "if %s { n_ += 1; } i_ += 1; } n_ })" % (recv, var, recv, var, recv, body))
            code = code[:rs] + new + code[m2.end():]
            stats["R9"] = stats.get("R9", 0) + 1
            continue
        m = re.search(r"\.\s*iter\(\)\s*\.\s*all\s*\(\s*(?=\|)", code)
        if m:
            rs = _receiver_start(code, m.start())
            recv = flat(code[rs:m.start()])
            var, body, cl = _closure_at(code, m.end())
            body = rewrite_map_or(body, stats)
            new = ("({ let mut all_ = true; let mut i_ = 0usize; while /*R9:E=%s;X=%s*/ all_ && i_ < %s.len() { let %s = &%s[i_]; "
                   "if !(%s) { all_ = false; } i_ += 1; } all_ })" % (recv, var, recv, var, recv, body))
            code = code[:rs] + new + code[cl + 1:]
            stats["R9"] = stats.get("R9", 0) + 1
            continue
        return code
    raise ExtractError("R9: too many rewrites")


def replace_self(body, new="self_"):
    """replace the identifier `self` (not `Self`, not `self_`) outside strings/comments"""
    out = []
    i = 0
    n = len(body)
    while i < n:
        k = skip_trivia(body, i)
        if k != i:
            out.append(body[i:k])
            i = k
            continue
        m = re.compile(r"\bself\b").match(body, i)
        if m and (i == 0 or not (body[i - 1].isalnum() or body[i - 1] == "_")):
            out.append(new)
            i = m.end()
        else:
            out.append(body[i])
            i += 1
    return "".join(out)


# ------------------------------------------------------------------------------------------------
# items
# ------------------------------------------------------------------------------------------------
def split_fns(impl_body):
    """Return list of dicts for each `fn` directly inside an impl body, plus the residue
    (associated types, consts) in order."""
    items = []
    i = 0
    n = len(impl_body)
    depth = 0
    last = 0
    while i < n:
        k = skip_trivia(impl_body, i)
        if k != i:
            i = k
            continue
        c = impl_body[i]
        if c == "{":
            depth += 1
        elif c == "}":
            depth -= 1
        elif depth == 0:
            m = re.compile(r"(pub(\([^)]*\))?\s+)?(const\s+)?fn\s+(\w+)").match(impl_body, i)
            if m and (i == 0 or not (impl_body[i - 1].isalnum() or impl_body[i - 1] == "_")):
                # signature runs to the first '{' or ';' at paren depth 0
                j = m.end()
                pd = 0
                while j < n:
                    ch = impl_body[j]
                    if ch in "(<[":
                        pd += 1 if ch != "<" else 0
                    if ch in ")]":
                        pd -= 1
                    if ch == "{" and pd == 0:
                        break
                    if ch == ";" and pd == 0:
                        break
                    # `->` contains '>' : harmless, we do not count angle brackets
                    j += 1
                pre = impl_body[last:i]
                if impl_body[j] == ";":
                    items.append(dict(kind="other", text=pre))
                    items.append(dict(kind="decl", name=m.group(4), sig=impl_body[i:j].rstrip()))
                    i = j + 1
                    last = i
                    continue
                e = match_close(impl_body, j)
                items.append(dict(kind="other", text=pre))
                items.append(
                    dict(kind="fn", name=m.group(4), sig=impl_body[i:j].rstrip(), body=impl_body[j + 1 : e])
                )
                i = e + 1
                last = i
                continue
        i += 1
    items.append(dict(kind="other", text=impl_body[last:]))
    return items


def publicize_struct(item, stats):
    item = drop_attrs_and_docs(item)
    m = re.search(r"\b(struct|enum)\s+\w+", item)
    head_end = m.end()
    # find body opener
    j = head_end
    # skip generics
    while j < len(item) and item[j] not in "{(;":
        if item[j] == "<":
            # skip balanced <>
            d = 0
            while True:
                if item[j] == "<":
                    d += 1
                elif item[j] == ">":
                    d -= 1
                    if d == 0:
                        break
                j += 1
        j += 1
    pre = item[:j]
    pre = re.sub(r"^\s*(pub(\([^)]*\))?\s+)?(struct|enum)", r"pub \3", pre.lstrip())
    if m.group(1) == "enum" or item[j] == ";":
        return pre + item[j:]
    if item[j] == "{":
        e = match_close(item, j)
        body = item[j + 1 : e]
        lines = []
        for line in body.split("\n"):
            mm = re.match(r"^(\s*)(pub(\([^)]*\))?\s+)?(\w+\s*:.*)$", line)
            if mm and not line.strip().startswith("//"):
                lines.append("%spub %s" % (mm.group(1), mm.group(4)))
                stats["R2"] += 0 if mm.group(2) and not mm.group(3) else 1
            else:
                lines.append(line)
        return pre + "{" + "\n".join(lines) + "}" + item[e + 1 :]
    else:  # tuple struct
        e = match_close(item, j, "(", ")")
        inner = item[j + 1 : e]
        parts = []
        d = 0
        cur = ""
        for ch in inner:
            if ch in "<([":
                d += 1
            elif ch in ">)]":
                d -= 1
            if ch == "," and d == 0:
                parts.append(cur)
                cur = ""
            else:
                cur += ch
        if cur.strip():
            parts.append(cur)
        np_ = []
        for p in parts:
            ps = p.strip()
            ps = re.sub(r"^pub(\([^)]*\))?\s+", "", ps)
            np_.append("pub " + ps)
            stats["R2"] += 1
        return pre + "(" + ", ".join(np_) + ")" + item[e + 1 :]


def extract_struct(path, name, kind, macro, args, stats):
    text = get_text(path, macro, args)
    ms = list(re.finditer(r"(?:pub(?:\([^)]*\))?\s+)?%s\s+%s\b" % (kind, re.escape(name)), mask_trivia(text)))
    if len(ms) != 1:
        raise ExtractError("%s %s: %d matches in %s" % (kind, name, len(ms), path))
    i = ms[0].start()
    # find end: either ';' (tuple/unit) or matching '}'
    j = ms[0].end()
    while text[j] not in "{(;":
        j += 1
    if text[j] == "{":
        e = match_close(text, j) + 1
    elif text[j] == "(":
        e = match_close(text, j, "(", ")")
        e = text.index(";", e) + 1
    else:
        e = j + 1
    item = text[i:e]
    stats["verbatim_lines"] += item.count("\n") + 1
    return publicize_struct(item, stats)


HANDLE_TRAITS = {"Observer": "HObserver", "Subscription": "HSubscription", "Observable": "HObservable"}


class ImplSpec:
    def __init__(self):
        self.spec = []
        self.fn = {}
        self.loops = {}
        self.rewrites = []
        self.silent = []
        self.lazyfns = []        # deferred closure bodies checked as free functions (rule R11b)
        self.freeprobes_at = []  # (fn, tags, regex of the foreign call, place that must NOT be lent at that call)
        self.borrowprobes_at = []   # (fn, tags, regex of the foreign call, place that must be lent at that call)
        self.yieldasserts = []   # (fn, regex of the call that hands control to foreign code, assertion)
        self.borrowprobes = {}   # (fn, loop ordinal) -> place expression that must be LENT while the loop runs
        self.frames = []      # (fn, field, type): by-value method must leave this cell field untouched
        self.trusted = set()
        self.skipfn = set()
        self.subst = []
        self.dropwhere = []
        self.canary_skip = set()
        self.ret = {}
        self.assumes = {}
        self.only = None
        self.header_rewrites = []
        self.nested = {}
        self.sigrewrites = []
        self.lazy = None
        self.asfree = set()


def apply_contract(sig, clauses, ret="r"):
    """R5: splice contract clauses after the signature; name the return value if needed."""
    text = "\n".join(clauses)
    if re.search(r"\b%s\b" % ret, text) and "->" in sig and not re.search(r"->\s*\(\s*\w+\s*:", sig):
        # name the result: `-> T where ..` => `-> (r: T) where ..`
        m = re.search(r"->\s*", sig)
        rest = sig[m.end():]
        wm = re.search(r"\bwhere\b", rest)
        ty = rest[: wm.start()].rstrip() if wm else rest.rstrip()
        tail = rest[wm.start():] if wm else ""
        sig = sig[: m.start()] + "-> (" + ret + ": " + ty + ")" + ("\n" + tail if tail else "")
    return sig, text


def normalize_params(sig, body, stats, byref=False):
    """R1b: parameter patterns that are not plain identifiers (`_`, tuple patterns) are named
    `arg_N`, and the original pattern is bound by a `let` at the top of the body."""
    m = re.search(r"\bfn\s+\w+\s*(<[^()]*>)?\s*\(", sig)
    if not m:
        return sig, body
    op = m.end() - 1
    cl = match_close(sig, op, "(", ")")
    params = []
    d = 0
    cur = ""
    for ch in sig[op + 1:cl]:
        if ch in "<([":
            d += 1
        elif ch in ">)]":
            d -= 1
        if ch == "," and d == 0:
            params.append(cur)
            cur = ""
        else:
            cur += ch
    if cur.strip():
        params.append(cur)
    new = []
    lets = []
    for k, prm in enumerate(params):
        ps = prm.strip()
        if re.match(r"(&\s*(mut\s+)?)?(mut\s+)?self\b", ps):
            new.append(prm)
            continue
        # split pattern : type at top-level colon
        d = 0
        cut = None
        for j, ch in enumerate(ps):
            if ch in "<([":
                d += 1
            elif ch in ">)]":
                d -= 1
            elif ch == ":" and d == 0 and ps[j:j+2] != "::" and (j == 0 or ps[j-1] != ":"):
                cut = j
                break
        if cut is None:
            new.append(prm)
            continue
        pat, ty = ps[:cut].strip(), ps[cut + 1:].strip()
        if re.match(r"^(mut\s+)?[A-Za-z]\w*$", pat) or re.match(r"^_\w+$", pat):
            new.append(prm)
            # a shared handle taken by value: the real MutRc/MutArc mutate through `&self`, the stand-ins
            # through `&mut self`; the binding is re-bound mutably so that a body that writes through a
            # by-value handle parameter still type-checks (stand-in artefact, not a change of the code)
            if re.match(r"^[A-Za-z]\w*$", pat) and not ty.startswith("&") and re.search(r"\b(MutRc|MutArc|Subscriber(Threads)?|FlagCell|Cell|AtomicBool)\b", ty) \
                    and re.search(r"\b%s\s*\.\s*(rc_deref_mut|set|store|swap|replace|fetch_\w+)\s*\(" % re.escape(pat), body):
                lets.append("\n    let mut %s = %s;" % (pat, pat))
            continue
        nm = "arg_%d" % k
        if byref and pat.startswith("(") and ty.startswith("("):
            # R7 for free functions: a tuple of shared handles passed by value is checked by
            # reference, so that the post-state of the cells is expressible
            names = [re.sub(r"^mut\s+", "", x.strip()) for x in pat[1:-1].split(",") if x.strip()]
            new.append(" %s: &mut %s" % (nm, ty))
            lets.append("\n    let (%s) = (%s);" % (", ".join(names), ", ".join("&mut %s.%d" % (nm, i_) for i_ in range(len(names)))))
            stats["R7"] += 1
            continue
        new.append(" %s: %s" % (nm, ty))
        if pat != "_":
            if pat.startswith("("):
                # bindings are made `mut`: the handle stand-ins take `&mut self` where the real
                # MutRc/MutArc take `&self`
                pat = "(" + ", ".join(("mut " + re.sub(r"^mut\s+", "", x.strip())) if re.match(r"^(mut\s+)?[a-z_]\w*$", x.strip()) and x.strip() != "_" else x.strip()
                                       for x in pat[1:-1].split(",") if x.strip()) + ")"
            lets.append("\n    let %s = %s;" % (pat, nm))
        stats["R1"] += 1
    sig = sig[:op + 1] + ",".join(new) + sig[cl:]
    return sig, "".join(lets) + body


def stmt_start_before(masked, pos):
    """index of the delimiter (`;`, `{` or `}`) after which a statement can be inserted in front of the
    statement that contains `pos`; a call inside a `match` arm (`P => call(..)`) is not in statement
    position, so the insertion point moves in front of the whole `match`"""
    k = max(masked.rfind(";", 0, pos), masked.rfind("{", 0, pos), masked.rfind("}", 0, pos))
    for _ in range(4):
        if "=>" not in masked[k + 1:pos]:
            break
        # the `{` at k opens (or a `,`-separated arm follows inside) a match: go to the `match` keyword
        mk = None
        for mm in re.finditer(r"\bmatch\b", masked[:k + 1]):
            mk = mm
        if mk is None:
            break
        pos = mk.start()
        k = max(masked.rfind(";", 0, pos), masked.rfind("{", 0, pos), masked.rfind("}", 0, pos))
    return k


def model_guard_scopes(body):
    """Probe files only (rule R13).  In the real code `rc_deref()` / `rc_deref_mut()` return guards
    (Ref / RefMut / MutexGuard) that are dropped at the END of their scope: a temporary in the scrutinee
    of `if let` / `while let` / `match` lives until the end of that whole statement.  The stand-ins
    return plain references, whose borrow ends at the last use; to give the borrow checker the scope of
    the real guard, the scrutinee is bound to a local first and that local is used once more after the
    statement:   if let P = X.rc_deref_mut()<rest> { B }   ==>
                 { let mut g_ = GuardScope_(X.rc_deref_mut()); if let P = g_.0<rest> { B } }
    where GuardScope_ has a destructor, so the borrow is live to the end of the block on every exit path
    (only where the `if let` is a whole statement with no `else`)."""
    out = body
    # named guards: `let [mut] G = X.rc_deref[_mut]();` — G is wrapped in GuardScope_ and every later use of
    # G in the enclosing block reads `G.0`; an explicit `drop(G)` / `drop_guard_(G)` moves the wrapper, which
    # ends the borrow there, as in the real code
    for _ in range(8):
        masked = mask_trivia(out)
        gm_ = re.search(r"(?<![\w])let\s+(?:mut\s+)?(\w+)\s*=\s*([\w\.\s]+?\.\s*rc_deref(?:_mut)?\s*\(\s*\))\s*;", masked)
        if not gm_ or "GuardScope_" in gm_.group(0):
            break
        g_ = gm_.group(1)
        # enclosing block: the innermost `{` that is still open at the let
        depth = 0
        end_ = len(out)
        for k in range(gm_.end(), len(masked)):
            if masked[k] == "{":
                depth += 1
            elif masked[k] == "}":
                if depth == 0:
                    end_ = k
                    break
                depth -= 1
        rest = out[gm_.end():end_]
        rest_m = masked[gm_.end():end_]
        # a later re-binding of the same name ends the renaming there
        sh_ = re.search(r"(?<![\w])let\s+(?:mut\s+)?%s\b" % re.escape(g_), rest_m)
        lim = len(rest)
        if sh_:
            # the initialiser of the re-binding still refers to the guard (`let g = g.as_mut().unwrap();`):
            # the renaming ends at the end of that statement; the re-bound name itself is left alone
            se_ = rest_m.find(";", sh_.end())
            lim = se_ if se_ >= 0 else sh_.start()
        def repl(mm):
            pre = rest_m[max(0, mm.start() - 14):mm.start()]
            if re.search(r"(drop|drop_guard_)\s*\(\s*$", pre) or re.search(r"\blet\s+(mut\s+)?$", pre):
                return mm.group(0)
            return mm.group(0) + ".0"
        head = re.sub(r"(?<![\w.])%s\b(?!\s*:)" % re.escape(g_), repl, rest[:lim]) if True else rest[:lim]
        # (positions in `rest_m` and `rest` coincide: masking keeps lengths)
        # the declared guard-release marker `hold_(&G);` (the rewritten `drop(G)` of the real code) moves the wrapper
        head = re.sub(r"hold_\(\s*&\s*%s\.0\s*\)\s*;" % re.escape(g_), "drop_guard_(%s);" % g_, head)
        new_let = "let mut %s = GuardScope_(%s);" % (g_, out[gm_.start(2):gm_.end(2)])
        out = out[:gm_.start()] + new_let + head + rest[lim:] + out[end_:]
    pos = 0
    for _ in range(20):
        masked = mask_trivia(out)
        m = re.compile(r"(?<![\w])if\s+let\s+").search(masked, pos)
        if not m:
            break
        eq = masked.find("=", m.end())
        ob = eq
        d = 0
        # the block opener of the `if let`: first `{` at depth 0 after the `=`
        k = eq + 1
        while k < len(masked):
            ch = masked[k]
            if ch in "([":
                d += 1
            elif ch in ")]":
                d -= 1
            elif ch == "{" and d == 0:
                break
            k += 1
        if k >= len(masked):
            break
        scrut = out[eq + 1:k]
        pos = m.end()
        if not re.search(r"\.\s*rc_deref(_mut)?\s*\(\s*\)", scrut):
            continue
        # statement position only: preceded by `;`, `{` or `}` and not followed by `else`
        prev = masked[:m.start()].rstrip()[-1:] if masked[:m.start()].strip() else "{"
        if prev not in ";{}":
            continue
        cb = match_close(out, k)
        if re.match(r"\s*else\b", masked[cb + 1:]):
            continue
        pat = out[m.end():eq]
        gm = re.match(r"^\s*([\w\.\s]+?\.\s*rc_deref(?:_mut)?\s*\(\s*\))(.*)$", scrut, re.S)
        if not gm:
            continue
        new = "{ let mut guard_tmp_ = GuardScope_(%s); if let %s= guard_tmp_.0%s %s }" % (gm.group(1), pat, gm.group(2).rstrip(), out[k:cb + 1])
        out = out[:m.start()] + new + out[cb + 1:]
        pos = m.start() + len("{ let mut guard_tmp_ = GuardScope_(")
    return out


CURRENT_PATHS = []   # source files of the item being processed (where R16 looks for helper definitions)
CURRENT_ITEM_TEXT = [""]   # text of the impl block being processed: a helper defined in it wins over same-named ones elsewhere (twin flavours)


def process_fn(fn, spec, handle, stats, canary):
    name = fn["name"]
    sig = drop_attrs_and_docs(fn["sig"])
    body = fn["body"]
    if INLINE_HELPERS and CURRENT_PATHS:
        # R16 works on the RAW body, so that every later rule (R4, R9, declared rewrites, probes) sees the
        # inlined text exactly as it would see the same expression written in place
        body = inline_helpers(body, [n_ for n_ in INLINE_HELPERS if n_ != name], list(CURRENT_PATHS), stats)
    stats["verbatim_lines"] += body.count("\n") + 1
    for (fname, old_, new_) in spec.sigrewrites:
        if fname != name:
            continue
        rx_ = re.compile(ws_insensitive_regex(old_))
        if len(rx_.findall(sig)) != 1:
            raise ExtractError("declared signature rewrite on %s no longer matches: %s" % (name, old_))
        sig = rx_.sub(new_, sig, count=1)
        stats["R7"] += 1
    # declared rewrites
    for (fname, old, new) in spec.rewrites:
        if fname != name:
            continue
        if old.startswith("reall:") or old.startswith("optreall:"):
            # regex form applied to every match (`reall:` at least one; `optreall:` a pure normalisation of
            # spelling that may have nothing to do)
            opt_ = old.startswith("optreall:")
            old = old[3:] if opt_ else old
            rx = re.compile(old[6:].strip())
            if not rx.search(body):
                if opt_:
                    continue
                raise ExtractError("declared rewrite on %s no longer matches: %s" % (name, old))
            body, n_ = rx.subn(lambda mm: mm.expand(new), body)
            stats["declared_rewrites"] += n_
            continue
        if old.startswith("optre:"):
            # optional regex form: the rewrite places a re-entry assertion at an explicit guard release; if
            # the release is gone the other obligations of the function (and the free probes) still decide,
            # and a unit that otherwise passes is reported undecided (the assertion could not be placed)
            rx = re.compile(old[6:].strip())
            ms = list(rx.finditer(body))
            if len(ms) != 1:
                stats.setdefault("yield_points_missing", []).append("%s: %s" % (name, old[6:].strip()))
                continue
            body = body[: ms[0].start()] + ms[0].expand(new) + body[ms[0].end():]
            stats["declared_rewrites"] += 1
            continue
        if old.startswith("re:"):
            # regex form (groups allowed in the replacement): tolerant to renamed locals
            rx = re.compile(old[3:].strip())
            ms = list(rx.finditer(body))
            if len(ms) != 1:
                raise ExtractError("declared rewrite on %s no longer matches exactly once: %s" % (name, old))
            body = body[: ms[0].start()] + ms[0].expand(new) + body[ms[0].end():]
            stats["declared_rewrites"] += 1
            continue
        rx = re.compile(ws_insensitive_regex(old))
        ms = list(rx.finditer(body))
        if len(ms) != 1:
            raise ExtractError("declared rewrite on %s no longer matches exactly once: %s" % (name, old))
        body = body[: ms[0].start()] + new + body[ms[0].end():]
        stats["declared_rewrites"] += 1
    # borrow probe at a call (lock scope): in probe mode an immutable use of the cell is placed right before
    # the statement that calls out; the borrow checker must reject it (the cell is mutably lent there)
    if PROBE_MODE:
        for (fname, tags_, rx_s, place_) in getattr(spec, "borrowprobes_at", []):
            if fname != name:
                continue
            masked = mask_trivia(body)
            ms_ = list(re.finditer(rx_s, masked))
            if not ms_:
                raise ExtractError("borrow probe: call site of %s not found: %s" % (name, rx_s))
            m_ = ms_[0]
            k_ = stmt_start_before(masked, m_.start())
            body = body[:k_ + 1] + "\n        /*BORROWPROBE %s.call %s*/ let bp_ = &(%s);" % (name, tags_, place_) + body[k_ + 1:]
    # the converse obligation: at a call that hands control to foreign code which may come back through
    # the same cell, the cell must NOT be lent; in probe mode a mutable use of the cell is placed right
    # before that statement and the borrow checker must ACCEPT it
    if PROBE_MODE:
        for (fname, tags_, rx_s, place_) in getattr(spec, "freeprobes_at", []):
            if fname != name and fname != "*":
                continue
            masked = mask_trivia(body)
            ms_ = list(re.finditer(rx_s, masked))
            if not ms_:
                if fname == "*":
                    continue   # `*`: every function of the impl that contains such a call (also one added later)
                raise ExtractError("free probe: call site of %s not found: %s" % (name, rx_s))
            m_ = ms_[0]
            k_ = stmt_start_before(masked, m_.start())
            body = body[:k_ + 1] + "\n        /*FREEPROBE %s.call %s*/ { let fp_ = &mut (%s); }" % (name, tags_, place_) + body[k_ + 1:]
        body = model_guard_scopes(body)
    # re-entry discipline: a proof assertion right before the statement that hands control to foreign
    # code (found by a declared regex, so that it survives renamings of the arguments); a yield point
    # that can no longer be found is a lost anchor (exit 2)
    for (fname, rx_s, expr_) in getattr(spec, "yieldasserts", []):
        if fname != name:
            continue
        masked = mask_trivia(body)
        ms_ = list(re.finditer(rx_s, masked))
        if not ms_:
            # the other obligations of the function still decide; if they all pass the runner reports the
            # unit as undecided, because this re-entry obligation could not be placed
            stats.setdefault("yield_points_missing", []).append("%s: %s" % (name, rx_s))
            continue
        for m_ in reversed(ms_):
            k_ = max(masked.rfind(";", 0, m_.start()), masked.rfind("{", 0, m_.start()), masked.rfind("}", 0, m_.start()))
            e_, _, c_ = expr_.partition("//")
            body = body[:k_ + 1] + "\n        assert(%s); // %s(yield point)" % (e_.strip(), (c_.strip() + " ") if c_ else "") + body[k_ + 1:]
        stats["added_lines"] += len(ms_)
    if spec.lazy:
        # R11: `Box::new(move || BODY)` (a deferred subscription) becomes `Lazy::defer(<captured>)`;
        # the closure body itself is NOT verified in this unit (stated in the unit header)
        for _ in range(4):
            lm = re.search(r"Box::new\(\s*move\s*\|\|\s*\{", body)
            if not lm:
                break
            op_ = body.index("(", lm.start())
            cl_ = match_close(body, op_, "(", ")")
            body = body[:lm.start()] + "Lazy::defer(%s)" % spec.lazy + body[cl_ + 1:]
            stats["R11"] = stats.get("R11", 0) + 1
    for (fname, tags_, rx_cell) in getattr(spec, "atomics", []):
        if fname != name:
            continue
        n_acq = len(re.findall(r"(?:%s)\s*\.\s*(?:try_)?rc_deref(?:_mut)?\s*\(" % rx_cell, mask_trivia(body)))
        stats.setdefault("atomic_sections", []).append([name, tags_.split(","), rx_cell, n_acq])
    # R14: `ready!(E)` (futures-rs) by its definition
    for _ in range(6):
        rm_ = re.search(r"\bready!\s*\(", mask_trivia(body))
        if not rm_:
            break
        re_ = match_close(body, rm_.end() - 1, "(", ")")
        body = (body[:rm_.start()] + "(match %s { Poll::Ready(ready_v_) => ready_v_, Poll::Pending => { return Poll::Pending; } })" % body[rm_.end():re_]
                + body[re_ + 1:])
        stats["R14"] = stats.get("R14", 0) + 1
    body = rewrite_entry_or_insert_with(body, stats)
    body = rewrite_iter_adapters(body, stats)
    body = rewrite_map_or(body, stats)
    body = drop_attrs_and_docs(body)
    # receivers
    by_value = re.search(r"\(\s*(mut\s+)?self\s*[,)]", sig) is not None
    if re.search(r"\(\s*self\s*:\s*Box\s*<\s*Self\s*>", sig):
        body = "\n    let mut self_ = self;" + replace_self(body)
        stats["R1"] += 1
        by_value = False
    if by_value:
        if handle:
            sig = re.sub(r"\(\s*(mut\s+)?self\s*([,)])", r"(&mut self\2", sig, count=1)
            stats["R7"] += 1
        else:
            sig = re.sub(r"\(\s*mut\s+self\s*([,)])", r"(self\1", sig, count=1)
            body = "\n    let mut self_ = self;" + replace_self(body)
            stats["R1"] += 1
    for gs_ in getattr(spec, "ghostlets", {}).get(name, []):
        # a ghost snapshot at function entry (annotation only: `let ghost x = <expr>;`)
        g2 = replace_self(gs_) if (by_value and not handle) else gs_
        pre_ = "\n    let mut self_ = self;"
        if body.startswith(pre_):
            body = pre_ + "\n    %s\n" % g2 + body[len(pre_):]
        else:
            body = "\n    %s\n" % g2 + body
        stats["added_lines"] += 1
    for (expr, why) in spec.assumes.get(name, []):
        e2 = replace_self(expr) if (by_value and not handle) else expr
        pre_ = "\n    let mut self_ = self;"
        if body.startswith(pre_):
            body = pre_ + "\n    assume(%s); // ASSUMPTION: %s\n" % (e2, why) + body[len(pre_):]
        else:
            body = "\n    assume(%s); // ASSUMPTION: %s\n" % (e2, why) + body
    if handle and re.search(r"(?<![\w])Observer::<", body):
        body = re.sub(r"(?<![\w])Observer::<", "HObserver::<", body)   # R7: explicit trait paths
        stats["R7"] += 1
    if handle and re.search(r"\bimpl\s+Observer\s*<", body):
        # R7 inside a handle impl: task functions receive the shared slot handle, so their
        # `impl Observer` parameter is the handle form of the trait (terminals take `&mut self`)
        body = re.sub(r"\bimpl\s+Observer\s*<", "impl HObserver<", body)
        body = re.sub(r"(?<![\w])(?<!mut )(\b\w+)(\s*:\s*impl HObserver<)", r"mut \1\2", body)
        body = re.sub(r"\(\s*(?!mut\b)(\w+)(\s*,[^)]*\)\s*:\s*\(\s*impl HObserver<)", r"(mut \1\2", body)
        stats["R7"] += 1
    # contracts of fn items nested in the body (task functions handed to a scheduler)
    for nname, ncl in spec.nested.get(name, {}).items():
        nm_ = re.search(r"\bfn\s+%s\b" % re.escape(nname), body)
        if not nm_:
            raise ExtractError("nested fn %s not found in %s" % (nname, name))
        j_ = nm_.end()
        pd_ = 0
        while j_ < len(body):
            ch_ = body[j_]
            if ch_ in "([":
                pd_ += 1
            elif ch_ in ")]":
                pd_ -= 1
            elif ch_ == "{" and pd_ == 0:
                break
            j_ += 1
        nsig = body[nm_.start():j_]
        e_ = match_close(body, j_)
        nbody = body[j_ + 1:e_]
        nsig2, nbody2 = normalize_params(nsig, nbody, stats)
        nsig2, ntext = apply_contract(nsig2, ncl, "r")
        body = body[:nm_.start()] + nsig2 + "\n" + ntext + "\n{" + nbody2 + "}" + body[e_ + 1:]
        stats["added_lines"] += len(ncl)
    sig, body = normalize_params(sig, body, stats, byref=getattr(spec, "byref", False))
    # `mut x: T` parameters: Verus wants the binding immutable in the signature
    # loop invariants
    if name in spec.loops:
        for ordinal, inv in sorted(spec.loops[name].items(), reverse=True):
            ms = list(re.finditer(r"\b(while|for|loop)\b", mask_trivia(body)))
            if not ms:
                # the body has become straight-line code: no invariant is needed any more
                stats["dropped_loop_contracts"] = stats.get("dropped_loop_contracts", 0) + 1
                continue
            if ordinal >= len(ms):
                raise ExtractError("loop %d of %s not found" % (ordinal, name))
            m = ms[ordinal]
            # header runs to the '{' that opens the loop body
            j = m.end()
            pd = 0
            while j < len(body):
                ch = body[j]
                if ch in "([":
                    pd += 1
                elif ch in ")]":
                    pd -= 1
                elif ch == "{" and pd == 0:
                    break
                j += 1
            mk = re.search(r"/\*R9:E=(.*?);X=(.*?)\*/", body[m.start():j])
            inv2 = inv
            if mk:
                # loop contracts may name the iterated collection / the element variable of a loop
                # produced by rule R9 as $E / $X, so that they survive a renaming of locals
                inv2 = [l_.replace("$E", mk.group(1)).replace("$X", mk.group(2)) for l_ in inv]
            if PROBE_MODE and (name, ordinal) in getattr(spec, "borrowprobes", {}):
                # borrow probe (lock-scope obligation discharged by the borrow checker): the loop invariant
                # mentions the cell; this text must be REJECTED (E0502/E0499/E0503/E0506) because the cell is
                # mutably lent for as long as the loop (the callbacks) runs
                place, ptags = spec.borrowprobes[(name, ordinal)]
                k_ = next((q for q, l_ in enumerate(inv2) if l_.strip().startswith("invariant")), None)
                if k_ is not None:
                    inv2 = inv2[:k_ + 1] + ["        /*BORROWPROBE %s.%d %s*/ (%s).1 == (%s).1," % (name, ordinal, ptags or "-", place, place)] + inv2[k_ + 1:]
            body = body[:j] + "\n" + "\n".join(inv2) + "\n" + body[j:]
    # an index loop produced by rule R9 that carries no loop contract (the code gained a loop the contracts
    # do not know) gets its obvious measure, so that the function is still decided by its postcondition
    def _default_measure(m_):
        hdr = m_.group(0)
        if re.search(r"\b(invariant|decreases)\b", hdr):
            return hdr
        return hdr[:-1] + "\n      decreases %s.len() - i_,\n{" % m_.group(1)
    body = re.sub(r"while\s*/\*R9:E=(.*?);X=.*?\*/[^{]*\{", _default_measure, body)
    clauses = list(spec.fn.get(name, []))
    # a parameter spelled `_x` (unused in the body) that the contract calls `x`: same parameter (R1)
    ctx_ = "\n".join(clauses)
    for um_ in re.finditer(r"[(,]\s*_([a-z]\w*)\s*:", sig):
        nm_ = um_.group(1)
        if re.search(r"\b%s\b" % nm_, ctx_) and not re.search(r"(?<![\w])%s\b" % nm_, sig + body):
            sig = re.sub(r"(?<![\w])_%s\b" % nm_, nm_, sig)
            body = re.sub(r"(?<![\w])_%s\b" % nm_, nm_, body)
            stats["R1"] += 1
    # R18: a renamed parameter of an Observer / Observable method (`fn next(&mut self, item: Item)`): the contract
    # names it as the trait declaration does (`value`, `err`, `observer`).  The signature gets the trait's name and the
    # body starts with `let item = value;` — the same function up to the name of its parameter.
    canon_ = {"next": "value", "error": "err", "actual_subscribe": "observer"}.get(name)
    if canon_ and re.search(r"(?<![\w.])%s\b" % canon_, mask_trivia(ctx_)):
        pm_ = re.search(r"\(\s*(?:&\s*(?:mut\s+)?|mut\s+)?self\s*,\s*(mut\s+)?(\w+)\s*:\s*[^,()]+\)\s*(?:->|$|where|\{)", sig.strip() + "")
        if pm_ and pm_.group(2) != canon_ and pm_.group(2) != "_" + canon_ and not re.search(r"(?<![\w.])%s\b" % re.escape(pm_.group(2)), mask_trivia(ctx_)) and not re.search(r"(?<![\w.])%s\b" % canon_, mask_trivia(sig)) \
                and not re.search(r"\blet\s+(?:mut\s+)?%s\b" % canon_, mask_trivia(body)):
            real_ = pm_.group(2)
            sig = re.sub(r"(\(\s*(?:&\s*(?:mut\s+)?|mut\s+)?self\s*,\s*)(mut\s+)?%s(\s*:)" % re.escape(real_), r"\g<1>%s\3" % canon_, sig, count=1)
            body = "\n    let %s%s = %s;" % (pm_.group(1) or "", real_, canon_) + body
            stats["R18"] = stats.get("R18", 0) + 1
    if canary and (clauses or name in spec.fn) and name not in spec.trusted and name not in spec.canary_skip:
        # vacuity canary: the entry of every contracted function must be reachable, i.e. its
        # preconditions (and the representation invariant) must be satisfiable
        body = "\n    assert(false); // CANARY\n" + body
    sig, ctext = apply_contract(sig, clauses, spec.ret.get(name, "r"))
    pre = ""
    if name in spec.trusted:
        pre = "#[verifier::external_body]\n"
    elif re.search(r"\b(while|for|loop)\b", mask_trivia(body)):
        # loops are verified WITH their context (facts about variables the loop does not modify, e.g. a
        # local bound before the loop): a proof that only holds in isolation would break on a harmless
        # edit such as `let limit = self.count; while len > limit` (a false alarm)
        pre = "#[verifier::loop_isolation(false)]\n"
    if name in getattr(spec, "nodecreases", set()):
        pre += "#[verifier::exec_allows_no_decreases_clause]\n"
    out = "%s%s\n%s\n{%s}\n" % (pre, sig, ctext, body)
    stats["added_lines"] += ctext.count("\n") + 1 if ctext else 0
    return out


def header_generics(header):
    """split `impl<G> Trait for Ty where W` into (G, traitpart, selfty, where)"""
    m = re.match(r"\s*impl\s*", header)
    rest = header[m.end():]
    gen = ""
    if rest.startswith("<"):
        d = 0
        for k, ch in enumerate(rest):
            if ch == "<":
                d += 1
            elif ch == ">" and rest[k - 1] != "-":
                d -= 1
                if d == 0:
                    gen = rest[1:k]
                    rest = rest[k + 1 :]
                    break
    wm = re.search(r"\bwhere\b", rest)
    where = rest[wm.end():].strip() if wm else ""
    main = rest[: wm.start()] if wm else rest
    fm = re.search(r"\bfor\b", main)
    if fm:
        trait = main[: fm.start()].strip()
        selfty = main[fm.end():].strip()
    else:
        trait = ""
        selfty = main.strip()
    return gen, trait, selfty, where


def extract_impl(path, header_lit, macro, args, handle, spec, stats, canary):
    del CURRENT_PATHS[:]
    CURRENT_PATHS.append(path)
    text = get_text(path, macro, args)
    m = find_unique(text, header_lit, "%s :: %s" % (path, header_lit))
    # header continues to '{'
    j = m.end()
    while text[j] != "{":
        j += 1
    e = match_close(text, j)
    header = text[m.start() : j]
    body = text[j + 1 : e]
    body = apply_gsubst(expand_inline_macros(body, source(path), path, stats))
    CURRENT_ITEM_TEXT[0] = body
    stats["verbatim_lines"] += header.count("\n") + 1
    header = drop_attrs_and_docs(header)
    for (a, b) in spec.subst:
        n0 = len(re.findall(r"\b%s\b" % re.escape(a), header + body))
        if n0 == 0:
            raise ExtractError("@@subst %s: no occurrence" % a)
        header = re.sub(r"\b%s\b" % re.escape(a), b, header)
        body = re.sub(r"\b%s\b" % re.escape(a), b, body)
        stats["R10"] += 1
    for dw in spec.dropwhere:
        rx = re.compile(ws_insensitive_regex(dw) + r"\s*,?")
        if not rx.search(header):
            raise ExtractError("@@dropwhere no longer matches: %s" % dw)
        header = rx.sub("", header, count=1)
    for (a, b) in spec.header_rewrites:
        rx = re.compile(ws_insensitive_regex(a))
        if len(rx.findall(header)) != 1:
            raise ExtractError("@@rewrite_header no longer matches: %s" % a)
        header = rx.sub(b.replace("\\", "\\\\"), header, count=1)
        stats["R10"] += 1
    if handle:
        # rename the implemented trait only (the token right before ` for <SelfTy>`), never a bound
        fm = re.search(r"\bfor\b", header)
        if fm:
            head_part = header[:fm.start()]
            for a, b in HANDLE_TRAITS.items():
                # last occurrence of the trait name followed by '<' or whitespace before `for`
                ms = list(re.finditer(r"\b%s\b(?=\s*(<|$))" % a, head_part.rstrip()))
                # the trait is the token after the impl generics: find the one outside `impl<..>`
                gm = re.match(r"\s*impl\s*(<)?", head_part)
                gend = 0
                if gm and gm.group(1):
                    d = 0
                    for k in range(gm.end() - 1, len(head_part)):
                        if head_part[k] == "<":
                            d += 1
                        elif head_part[k] == ">" and head_part[k - 1] != "-":
                            d -= 1
                            if d == 0:
                                gend = k + 1
                                break
                tm_ = re.match(r"\s*%s\b" % a, head_part[gend:])
                if tm_:
                    header = head_part[:gend] + re.sub(r"\b%s\b" % a, b, head_part[gend:], count=1) + header[fm.start():]
                    break
    if re.match(r"\s*(pub(\([^)]*\))?\s+)?trait\b", header):
        header = re.sub(r"^\s*(pub(\([^)]*\))?\s+)?trait\b", "pub trait", header)   # R2
        gen, trait, selfty, where = "", "", "Self", ""
    else:
        gen, trait, selfty, where = header_generics(header)
    CURRENT_ITEM_TEXT[1:] = [selfty]
    out = [header.rstrip() + "\n{"]
    tm = re.match(r"Observer\s*<(.*)>\s*$", trait, re.S)
    if tm and not handle and not any("fn records" in x for x in spec.spec):
        ta = re.sub(r"\s+", " ", tm.group(1)).strip()
        spec.spec = ["  open spec fn rx(&self) -> Seq<Ev<%s>> { Seq::empty() }" % ta,
                     "  open spec fn records(&self) -> bool { false }",
                     "  open spec fn delivered(t: Seq<Ev<%s>>) -> bool { true }" % ta] + spec.spec
        stats["R6"] += 3
    if tm and not handle and not any("fn ended" in x for x in spec.spec):
        ta = re.sub(r"\s+", " ", tm.group(1)).strip()
        spec.spec = ["  open spec fn ended(o: Self, ev: Ev<%s>) -> bool { true }" % ta] + spec.spec
        stats["R6"] += 1
    if spec.spec:
        out.append("\n".join(spec.spec))
        stats["added_lines"] += len(spec.spec)
    items = split_fns(body)
    seen = set()
    silent_out = []
    for it in items:
        if it["kind"] == "other":
            t = drop_attrs_and_docs(it["text"]).strip()
            if t and spec.only is None:
                out.append(t)
            continue
        if it["kind"] == "decl":
            seen.add(it["name"])
            if spec.only is not None and it["name"] not in spec.only:
                continue
            dsig, dtext = apply_contract(drop_attrs_and_docs(it["sig"]), spec.fn.get(it["name"], []), spec.ret.get(it["name"], "r"))
            out.append("%s\n%s;" % (dsig, dtext.rstrip().rstrip(",")))
            continue
        seen.add(it["name"])
        if it["name"] in spec.asfree:
            # the method is checked as a FREE function over the same text (receiver `self` becomes the
            # parameter `self_`): used where Verus restricts the trait impl itself (Drop::drop)
            fsig = drop_attrs_and_docs(it["sig"])
            fsig = re.sub(r"\(\s*&\s*mut\s+self\s*([,)])", r"(self_: &mut %s\1" % selfty.replace("\\", "\\\\"), fsig, count=1)
            fsig = re.sub(r"\(\s*&\s*self\s*([,)])", r"(self_: &%s\1" % selfty.replace("\\", "\\\\"), fsig, count=1)
            fsig = re.sub(r"\(\s*(mut\s+)?self\s*([,)])", r"(self_: %s\2" % selfty.replace("\\", "\\\\"), fsig, count=1)
            fname_ = "free__%s__%s" % (re.sub(r"\W+", "_", selfty)[:40], it["name"])
            fsig = re.sub(r"\bfn\s+%s\b" % it["name"], "fn " + fname_, fsig)
            if gen:
                fsig = re.sub(r"(fn\s+\w+)", r"\1<%s>" % gen, fsig, count=1)
            fb = replace_self(rewrite_map_or(it["body"], stats))
            cl_ = [replace_self(c) for c in spec.fn.get(it["name"], [])]
            for (expr, why) in spec.assumes.get(it["name"], []):
                fb = "\n    assume(%s); // ASSUMPTION: %s\n" % (replace_self(expr), why) + fb
            if canary and it["name"] not in spec.canary_skip:
                fb = "\n    assert(false); // CANARY\n" + fb
            fsig, ctext = apply_contract(fsig, cl_, spec.ret.get(it["name"], "r"))
            wh = ("\nwhere " + where) if where else ""
            silent_out.append("%s%s\n%s\n{%s}\n" % (fsig, wh, ctext, fb))
            stats["asfree"] = stats.get("asfree", 0) + 1
            continue
        if it["name"] in spec.skipfn or (spec.only is not None and it["name"] not in spec.only):
            continue
        out.append(process_fn(it, spec, handle, stats, canary))
        for lf in spec.lazyfns:
            if lf["parent"] != it["name"]:
                continue
            # R11b: the body of the deferred closure `Box::new(move || { BODY })` is checked as a free
            # function over the same text; its captured variables are the declared parameters, the
            # declared tail expression hands the captured composite back so that a postcondition can
            # speak about it
            lm = re.search(r"Box::new\(\s*move\s*\|\|\s*\{", mask_trivia(it["body"]))
            if not lm:
                stats.setdefault("yield_points_missing", []).append("%s: deferred closure of %s not found" % (lf["name"], it["name"]))
                seen.add(lf["name"])
                continue
            ob_ = it["body"].index("{", lm.start())
            cb_ = match_close(it["body"], ob_)
            cbody = it["body"][ob_ + 1:cb_]
            for (canon_, rx_) in lf.get("captures", []):
                cm_ = re.search(r"let\s+(?:mut\s+)?(\w+)\s*(?::[^=;]+)?=\s*%s\s*;" % rx_, mask_trivia(it["body"][:lm.start()]))
                if cm_ and cm_.group(1) != canon_:
                    cbody = re.sub(r"\b%s\b" % re.escape(cm_.group(1)), canon_, cbody)
            wh = ("\nwhere " + where) if where else ""
            lsig = "fn %s<%s>(%s) -> (r: %s)%s" % (lf["name"], gen, lf["params"], lf["ret"], wh)
            synth = dict(kind="fn", name=lf["name"], sig=lsig, body=cbody.rstrip() + "\n    " + lf["tail"] + "\n")
            silent_out.append(process_fn(synth, spec, handle, stats, canary))
            seen.add(lf["name"])
            stats["R11b"] = stats.get("R11b", 0) + 1
        for (fname, muted) in spec.silent:
            if fname != it["name"]:
                continue
            # free function: same generics/where, downstream bound replaced by the muted trait
            # (optional ` :: requires <expr over self_>`: closure totality the body relies on)
            sreq = None
            if " :: requires " in muted:
                muted, sreq = [x.strip() for x in muted.split(" :: requires ", 1)]
            sig = drop_attrs_and_docs(it["sig"])
            sig = re.sub(r"\(\s*(mut\s+)?self\s*([,)])", r"(self_: %s\2" % selfty.replace("\\", "\\\\"), sig, count=1)
            sig = re.sub(r"\(\s*&\s*mut\s+self\s*([,)])", r"(self_: &mut %s\1" % selfty.replace("\\", "\\\\"), sig, count=1)
            sig = re.sub(r"\bfn\s+%s\b" % fname, "fn silent__%s__%s" % (re.sub(r"\W+", "_", selfty)[:40], fname), sig)
            if "==>" in muted:
                a_, b_ = [x.strip() for x in muted.split("==>", 1)]
                rx_ = re.compile(ws_insensitive_regex(a_))
                if not (rx_.search(where) or rx_.search(gen)):
                    raise ExtractError("@@silent: bound `%s` not found" % a_)
                w2 = rx_.sub(b_, where)
                g2 = rx_.sub(b_, gen)
            else:
                w2 = re.sub(r"\bObserver\s*<", muted + "<", where)
                g2 = re.sub(r"\bObserver\s*<", muted + "<", gen)
            # generics: merge impl generics into the fn
            if re.search(r"fn\s+\w+\s*<", sig):
                sig = re.sub(r"(fn\s+\w+\s*)<", r"\1<%s, " % g2, sig, count=1)
            else:
                sig = re.sub(r"(fn\s+\w+)", r"\1<%s>" % g2, sig, count=1)
            for am in re.finditer(r"\btype\s+(\w+)\s*=\s*([^;]+);", body):
                sig = re.sub(r"\bSelf::%s\b" % am.group(1), am.group(2).strip(), sig)
            sig = re.sub(r"\bSelf::", "<%s>::" % selfty, sig)
            b = replace_self(rewrite_map_or(it["body"], stats))
            pm = re.findall(r"[(,]\s*mut\s+(\w+)\s*:", sig)
            for p in pm:
                sig = re.sub(r"([(,]\s*)mut\s+" + p + r"(\s*:)", r"\1" + p + r"\2", sig)
                b = "\n    let mut %s = %s;" % (p, p) + b
            sig, b = normalize_params(sig, b, stats)
            b = "\n    let mut self_ = self_;" + b if "&mut" not in sig.split(")")[0] else b
            wh = ("\nwhere " + w2) if w2 else ""
            if "->" in sig and re.search(r"\bwhere\b", sig):
                raise ExtractError("silent: fn-level where not supported")
            silent_out.append("%s%s%s\n{%s}\n" % (sig, wh, ("\n  requires %s," % sreq) if sreq else "", b))
            stats["silent_obligations"] += 1
        for (fname, field, fty) in spec.frames:
            if fname != it["name"]:
                continue
            # FRAME obligation: a by-value method consumes `self`, so what it does to a shared cell it
            # holds leaves no trace in a postcondition; the body is emitted once more as a free
            # function that hands the cell field back, and must leave it exactly as it was
            sig = drop_attrs_and_docs(it["sig"])
            if not re.search(r"\(\s*(mut\s+)?self\s*[,)]", sig):
                raise ExtractError("@@frame %s: not a by-value method" % fname)
            sig = re.sub(r"\(\s*(mut\s+)?self\s*([,)])", r"(self_: %s\2" % selfty.replace("\\", "\\\\"), sig, count=1)
            sig = re.sub(r"\bfn\s+%s\b" % fname, "fn frame__%s__%s" % (re.sub(r"\W+", "_", selfty)[:40], fname), sig)
            if "->" in sig:
                raise ExtractError("@@frame %s: method returns a value" % fname)
            if re.search(r"fn\s+\w+\s*<", sig):
                sig = re.sub(r"(fn\s+\w+\s*)<", r"\1<%s, " % gen, sig, count=1)
            else:
                sig = re.sub(r"(fn\s+\w+)", r"\1<%s>" % gen, sig, count=1)
            sig = sig.rstrip() + " -> (r: %s)" % fty
            b = replace_self(rewrite_map_or(it["body"], stats))
            sig, b = normalize_params(sig, b, stats)
            wh = ("\nwhere " + where) if where else ""
            body_ = "\n    let mut self_ = self_;\n    let unit_: () = {%s};\n    self_.%s\n" % (b, field)
            pre_ = "self_.wf()" if not handle else "self_.hwf()"
            silent_out.append("%s%s\n  requires %s,\n  ensures r == self_.%s,\n{%s}\n" % (sig, wh, pre_, field, body_))
            stats["silent_obligations"] += 1
    for fname in list(spec.fn) + [s[0] for s in spec.silent] + [s[0] for s in spec.frames] + list(spec.trusted):
        if fname not in seen:
            raise ExtractError("method %s not found in impl %s" % (fname, header_lit))
    out.append("}\n")
    fn_names = [it["name"] for it in items if it["kind"] == "fn"]
    if fn_names and all(nm in spec.asfree for nm in fn_names):
        return "\n".join(silent_out)
    return "\n".join(out) + "\n" + "\n".join(silent_out)


def extract_free_fn(path, name, macro, args, clauses, loops, rewrites, stats, canary, trusted=False, byref=False, ret="r", sigrewrites=()):
    del CURRENT_PATHS[:]
    CURRENT_PATHS.append(path)
    text = get_text(path, macro, args)
    ms = [m for m in re.finditer(r"(?:pub(?:\([^)]*\))?\s+)?fn\s+%s\b" % re.escape(name), mask_trivia(text))]
    if len(ms) != 1:
        raise ExtractError("fn %s: %d matches in %s" % (name, len(ms), path))
    i = ms[0].start()
    items = split_fns(text[i:])
    fn = [it for it in items if it["kind"] == "fn"][0]
    spec = ImplSpec()
    spec.fn[name] = clauses
    spec.loops = {name: loops} if loops else {}
    spec.rewrites = [(name, a, b) for (a, b) in rewrites]
    spec.sigrewrites = [(name, a, b) for (a, b) in sigrewrites]
    if trusted:
        spec.trusted.add(name)
    spec.byref = byref
    spec.ret[name] = ret
    fn["sig"] = re.sub(r"^(pub(\([^)]*\))?\s+)?fn", "pub fn", fn["sig"].lstrip())
    return process_fn(fn, spec, False, stats, canary)


# ------------------------------------------------------------------------------------------------
# template processing
# ------------------------------------------------------------------------------------------------
FILE_HEAD = """#![feature(allocator_api)]
#![allow(unused)]
#![allow(unused_mut)]
use vstd::prelude::*;
use std::collections::VecDeque;
use std::collections::HashSet;
use std::collections::HashMap;
use std::hash::Hash;
use std::marker::PhantomData;
verus! {
"""
FILE_TAIL = """
} // verus!
fn main() {}
"""


def parse_kv(tokens):
    kv = {}
    rest = []
    for t in tokens:
        if "=" in t and not t.startswith("="):
            k, v = t.split("=", 1)
            kv[k] = v
        else:
            rest.append(t)
    return kv, rest


def variants_of(template_text):
    for line in template_text.split("\n"):
        if line.startswith("@@variants"):
            cols = {}
            for tok in line.split()[1:]:
                k, v = tok.split("=", 1)
                cols[k] = [x.replace("~", " ") for x in (v.split("|") if "|" in v else v.split(","))]
            n = len(next(iter(cols.values())))
            return [{k: v[i] for k, v in cols.items()} for i in range(n)]
    return [{}]


PROBE_MODE = False
INLINE_HELPERS = ()   # names of single-expression helper functions to inline (rule R16), set per retry


def _split_args(s):
    out, cur, d = [], "", 0
    for ch in s:
        if ch in "([{<":
            d += 1
        elif ch in ")]}>":
            d -= 1
        if ch == "," and d == 0:
            out.append(cur)
            cur = ""
        else:
            cur += ch
    if cur.strip():
        out.append(cur)
    return [x.strip() for x in out]



def _expand_field_shorthand(text, name):
    """`Type { name, other: x }` -> `Type { name: name, other: x }` (only inside braces that follow a type path)"""
    msk = mask_trivia(text)
    out = []
    stack = []
    i = 0
    last = 0
    n = len(msk)
    while i < n:
        ch = msk[i]
        if ch in "([{":
            lit = False
            if ch == "{":
                pre = msk[:i].rstrip()
                wm = re.search(r"([\w>]+)$", pre)
                lit = bool(wm) and wm.group(1) not in ("else", "loop", "unsafe", "move", "async", "try", "in") and not re.search(r"\b(if|while|for|match|fn|impl|mod|struct|enum|trait)\b[^{};]*$", pre)
            stack.append((ch, lit))
        elif ch in ")]}":
            if stack:
                stack.pop()
        elif (ch.isalpha() or ch == "_") and (i == 0 or not (msk[i - 1].isalnum() or msk[i - 1] == "_")):
            m = re.compile(r"\w+").match(msk, i)
            w = m.group(0)
            if w == name and stack and stack[-1] == ("{", True):
                pre = msk[:i].rstrip()
                post = msk[m.end():].lstrip()
                if pre and pre[-1] in "{," and post and post[0] in ",}":
                    out.append(text[last:m.end()] + ": " + name)
                    last = m.end()
            i = m.end()
            continue
        i += 1
    out.append(text[last:])
    return "".join(out)

def inline_helpers(unit_text, names, paths, stats):
    """R16: a helper function that the extracted text calls but that lies outside the extracted items (a refactoring
    moved a few lines into `fn helper(&self) -> T { <one expression> }`) is INLINED at its call sites: the call
    `recv.helper(args)` / `helper(args)` is replaced by the helper's body — the same text that runs — with `self`
    and the parameters replaced by the receiver / argument expressions.  Only single-expression bodies (no `;`,
    no `return`) and only receivers / arguments that are plain paths (evaluating them twice changes nothing)."""
    for nm in names:
        body = params = None
        multi_stmt = False
        # a name that is defined more than once in the searched files (e.g. once per flavour of a twin type) cannot be
        # resolved without types: it is not inlined
        n_defs = 0
        for pth in paths:
            try:
                n_defs += len(re.findall(r"\bfn\s+%s\b" % re.escape(nm), mask_trivia(source(pth))))
            except ExtractError:
                pass
        # a helper defined exactly once inside the impl block being processed is THE helper its methods call, even
        # when the twin flavour's impl block defines one of the same name (C18-i)
        in_item = len(re.findall(r"\bfn\s+%s\b" % re.escape(nm), mask_trivia(CURRENT_ITEM_TEXT[0]))) == 1
        if n_defs == 0 and not in_item:
            continue
        cands_ = [CURRENT_ITEM_TEXT[0]] if in_item else []
        if not in_item and n_defs != 1:
            # several same-named helpers: the one defined in an impl block of the SAME self type as the item being
            # processed (base name of the type; e.g. `InnerObserver` vs `InnerObserverThreads`)
            want_ = re.match(r"\s*(?:&\s*(?:mut\s+)?)?((?:\w+\s*::\s*)*\w+)", CURRENT_ITEM_TEXT[1] if len(CURRENT_ITEM_TEXT) > 1 else "")
            want_ = want_.group(1).split("::")[-1].strip() if want_ else None
            for pth in paths:
                try:
                    src_ = source(pth)
                except ExtractError:
                    continue
                msk_ = mask_trivia(src_)
                for im_ in re.finditer(r"\bimpl\b[^{;]*\{", msk_):
                    ob_ = im_.end() - 1
                    try:
                        cb_ = match_close(src_, ob_)
                    except Exception:
                        continue
                    hd_ = re.sub(r"\bwhere\b.*", "", msk_[im_.start():ob_], flags=re.S)
                    hd_ = re.sub(r"^impl\s*(<[^{]*?>)?\s*", "", hd_.strip()) if not re.search(r"\bfor\b", hd_) else re.split(r"\bfor\b", hd_)[-1]
                    tm_ = re.match(r"\s*((?:\w+\s*::\s*)*\w+)", hd_)
                    if not tm_ or not want_ or tm_.group(1).split("::")[-1].strip() != want_:
                        continue
                    if len(re.findall(r"\bfn\s+%s\b" % re.escape(nm), msk_[ob_:cb_])) == 1:
                        cands_.append(src_[ob_ + 1:cb_])
            if len(cands_) != 1:
                continue
        elif not in_item:
            for pth in paths:
                try:
                    cands_.append(source(pth))
                except ExtractError:
                    continue
        for src in cands_:
            msk = mask_trivia(src)
            for dm in re.finditer(r"\bfn\s+%s\s*(?:<[^>()]*>)?\s*\(" % re.escape(nm), msk):
                pe = match_close(src, dm.end() - 1, "(", ")")
                ob = msk.find("{", pe)
                sc = msk.find(";", pe)
                if ob < 0 or (0 <= sc < ob):
                    continue
                cb = match_close(src, ob)
                b_ = drop_attrs_and_docs(src[ob + 1:cb]).strip()
                bm_ = mask_trivia(b_)
                if "$" in b_ or re.search(r"\breturn\b", bm_):
                    continue
                # single expression: no `;` at depth 0.  A body of several statements is inlined as a block expression
                # (`({ .. })`) provided it has no `return` / `?` (they would leave the CALLER) and defines no macro /
                # nested fn; the names it binds must not capture the receiver or an argument (checked at the call site)
                d_ = 0
                single = True
                for ch in bm_:
                    if ch in "([{":
                        d_ += 1
                    elif ch in ")]}":
                        d_ -= 1
                    elif ch == ";" and d_ == 0:
                        single = False
                        break
                if not single and ("?" in bm_ or re.search(r"\b(fn|macro_rules|loop|while|for|async|await)\b", bm_)):
                    continue
                body, params = b_, _split_args(src[dm.end():pe])
                multi_stmt = not single
                break
            if body is not None:
                break
        if body is None:
            continue
        has_self = bool(params) and re.match(r"^(&\s*(mut\s+)?)?(mut\s+)?self$", params[0])
        pnames = []
        for prm in (params[1:] if has_self else params):
            pm_ = re.match(r"^(?:mut\s+)?(\w+)\s*:", prm)
            if not pm_:
                pnames = None
                break
            pnames.append(pm_.group(1))
        if pnames is None:
            continue
        for _ in range(12):
            msk = mask_trivia(unit_text)
            cm = None
            for cm_ in re.finditer((r"\.\s*%s\s*(?:::<[^>()]*>)?\s*\(" if has_self else r"(?<![\w.:])(?:\w+\s*::\s*)?%s\s*(?:::<[^>()]*>)?\s*\(") % re.escape(nm), msk):
                # not the definition itself
                if re.search(r"\bfn\s*$", msk[:cm_.start()]):
                    continue
                cm = cm_
                break
            if cm is None:
                break
            start_ = cm.start()
            recv_ = ""
            if has_self:
                start_ = _receiver_start(unit_text, cm.start())
                recv_ = unit_text[start_:cm.start()].strip()
                # a receiver that is not a plain path is evaluated once only if the body mentions `self` once
                n_self = len(re.findall(r"(?<![\w.])self\b", mask_trivia(body)))
                if not recv_ or (not re.match(r"^[\w.]+$", recv_) and n_self != 1):
                    break
            ae = match_close(unit_text, cm.end() - 1, "(", ")")
            args = _split_args(unit_text[cm.end():ae])
            if len(args) != len(pnames) or any(not re.match(r"^[&*\s\w.]+$", a) for a in args):
                break
            if multi_stmt:
                bound_ = set(re.findall(r"\blet\s+(?:mut\s+)?(\w+)", mask_trivia(body))) | set(re.findall(r"\b(?:Some|Ok|Err)\(\s*(?:mut\s+|ref\s+)?(\w+)\s*\)\s*=", mask_trivia(body))) | set(re.findall(r"\|\s*(?:mut\s+)?(\w+)\s*[|,:]", mask_trivia(body)))
                roots_ = set(re.match(r"^[&*\s]*(?:mut\s+)?(\w+)", a).group(1) for a in args if re.match(r"^[&*\s]*(?:mut\s+)?(\w+)", a))
                if recv_:
                    roots_.add(re.match(r"^(\w+)", recv_).group(1) if re.match(r"^(\w+)", recv_) else "")
                if (roots_ - {"self"}) & bound_:
                    break
            b2 = body
            if has_self:
                b2 = re.sub(r"(?<![\w.])self\b", recv_.replace("\\", "\\\\"), b2)
            for pn, av in zip(pnames, args):
                av2 = re.sub(r"^&\s*(mut\s+)?", "", av.strip())
                # struct-literal shorthand `T { pn, .. }` is `T { pn: pn, .. }`; a field NAME `pn:` is not the parameter
                b2 = _expand_field_shorthand(b2, pn)
                b2 = re.sub(r"(?<![\w.])%s\b(?!\s*:(?!:))" % re.escape(pn), av2.replace("\\", "\\\\"), b2)
            # a body made of block-like statements followed by a tail expression (`for .. { .. } self.observer`: no `;`
            # at depth 0, yet not ONE expression) is inlined as a block expression
            bm2_ = mask_trivia(b2)
            d2_ = 0
            blocky = False
            for ix_, ch in enumerate(bm2_):
                if ch in "([{":
                    d2_ += 1
                elif ch in ")]}":
                    d2_ -= 1
                    if ch == "}" and d2_ == 0 and bm2_[ix_ + 1:].strip() and not re.match(r"\s*(else\b|\.|\?|\))", bm2_[ix_ + 1:]):
                        blocky = True
            unit_text = unit_text[:start_] + ("({ " + b2 + " })" if (blocky or multi_stmt) else "(" + b2 + ")") + unit_text[ae + 1:]
            stats["R16"] = stats.get("R16", 0) + 1
    return unit_text


def generate(template_path, variant, canary=False, probe=False):
    global PROBE_MODE
    PROBE_MODE = probe
    try:
        return generate_(template_path, variant, canary)
    finally:
        PROBE_MODE = False


def generate_(template_path, variant, canary=False):
    """returns (verus_source_text, stats)"""
    stats = dict(verbatim_lines=0, added_lines=0, R1=0, R2=0, R4=0, R7=0, R10=0, declared_rewrites=0,
                 silent_obligations=0, trusted_fns=0, assumes=0, R6=0, sources=[])
    raw = open(template_path).read()
    del GSUBST[:]

    def splice_includes(txt, depth=0):
        out_ = []
        for ln in txt.split("\n"):
            if ln.startswith("@@include "):
                inc = os.path.join(VERIF, "contracts", ln.split()[1])
                if depth > 4:
                    raise ExtractError("include depth")
                out_.append(splice_includes(open(inc).read(), depth + 1))
            else:
                out_.append(ln)
        return "\n".join(out_)

    raw = splice_includes(raw)
    for k, v in variant.items():
        raw = raw.replace("${%s}" % k, v)
    lines = raw.split("\n")
    out = []
    prelude = open(os.path.join(VERIF, "contracts", "prelude.rs")).read()
    i = 0
    n = len(lines)

    def collect(i):
        """collect literal lines until next @@ directive"""
        buf = []
        while i < n and not lines[i].startswith("@@"):
            buf.append(lines[i])
            i += 1
        return buf, i

    while i < n:
        line = lines[i]
        if not line.startswith("@@"):
            out.append(line)
            stats["added_lines"] += 1 if line.strip() else 0
            i += 1
            continue
        toks = line.split()
        d = toks[0]
        if d == "@@variants":
            i += 1
            continue
        if d == "@@gsubst":
            a_, b_ = line[len("@@gsubst"):].split("=>", 1)
            GSUBST.append((a_.strip(), b_.strip()))
            stats["R10"] += 1
            i += 1
            continue
        if d in ("@@struct", "@@enum"):
            kv, rest = parse_kv(toks[1:])
            path, name = rest[0], rest[1]
            args = kv["args"].split(";") if "args" in kv else None
            st_ = extract_struct(path, name, d[2:], kv.get("macro"), args, stats)
            for tp in (kv.get("reject", "").split(",") if kv.get("reject") else []):
                st_ = "#[verifier::reject_recursive_types(%s)]\n" % tp + st_
            out.append(st_)
            stats["sources"].append("%s %s::%s" % (d[2:], path, name))
            # ownership condition (C13): an operator VALUE (`...Op`, `...OpThreads`) is plain data; a field
            # whose type is a shared mutable cell would be shared by the derived Clone between the
            # subscriptions of clones of one pipeline.  `shared=ok` marks the operators that are hot by
            # design (share, status).  Decided on the extracted struct text (types), not by the solver.
            if d == "@@struct" and re.search(r"Op(Threads)?$", name) and kv.get("shared") != "ok":
                body_ = mask_trivia(st_)
                body_ = body_[body_.index(name) + len(name):]
                cells_ = sorted(set(re.findall(r"\b(MutRc|MutArc|FlagCell|RefCell|Cell|OnceCell|UnsafeCell|Mutex|RwLock|Atomic\w+|MultiSubscription\w*)\b", body_)))
                stats.setdefault("plain_values", []).append([name, path, cells_, [x for x in kv.get("ownertags", "C13").split(",") if x]])
            i += 1
            continue
        if d == "@@type":
            kv, rest = parse_kv(toks[1:])
            path, name = rest[0], rest[1]
            text_ = get_text(path, kv.get("macro"), kv["args"].split(";") if "args" in kv else None)
            ms = list(re.finditer(r"(?:pub(?:\([^)]*\))?\s+)?type\s+%s\b[^;]*;" % re.escape(name), mask_trivia(text_)))
            if len(ms) != 1:
                raise ExtractError("type %s: %d matches in %s" % (name, len(ms), path))
            item = re.sub(r"^(pub(\([^)]*\))?\s+)?type", "pub type", text_[ms[0].start():ms[0].end()])
            out.append(item)
            stats["verbatim_lines"] += item.count("\n") + 1
            stats["sources"].append("type %s::%s" % (path, name))
            i += 1
            continue
        if d == "@@impl":
            head, header_lit = line.split("::", 1)
            kv, rest = parse_kv(head.split()[1:])
            path = rest[0]
            handle = kv.get("as") == "handle"
            args = kv["args"].split(";") if "args" in kv else None
            spec = ImplSpec()
            i += 1
            while i < n and lines[i].strip() != "@@end":
                l = lines[i]
                t = l.split()
                if not l.startswith("@@"):
                    if l.strip():
                        raise ExtractError("%s:%d: stray text inside @@impl" % (template_path, i + 1))
                    i += 1
                    continue
                if t[0] == "@@spec":
                    buf, i = collect(i + 1)
                    spec.spec += buf
                elif t[0] == "@@fn":
                    buf, i = collect(i + 1)
                    spec.fn.setdefault(t[1], [])
                    spec.fn[t[1]] += [b for b in buf if b.strip()]
                    if "nocanary" in t[2:]:
                        spec.canary_skip.add(t[1])
                    for x in t[2:]:
                        if x.startswith("ret="):
                            spec.ret[t[1]] = x[4:]
                elif t[0] == "@@asfree":
                    spec.asfree.update(t[1:])
                    i += 1
                elif t[0] == "@@lazyclosures":
                    spec.lazy = t[1]
                    i += 1
                elif t[0] == "@@atomic":
                    # @@atomic <fn> [tags] :: <regex of the cell expression>
                    # the function acquires that cell exactly ONCE: its decision and its action are one
                    # critical section (a second acquisition = check-then-act: another handle can act in between)
                    parts_ = [x.strip() for x in l.split(" :: ")]
                    tg_ = re.search(r"\[([C0-9, ]+)\]", parts_[0])
                    spec.atomics = getattr(spec, "atomics", []) + [(t[1], tg_.group(1).replace(" ", "") if tg_ else "-", parts_[1])]
                    i += 1
                elif t[0] == "@@nodecreases":
                    # the loop of <fn> has no measure in general (it runs as long as its input is ready):
                    # termination is NOT claimed, partial correctness only
                    spec.nodecreases = getattr(spec, "nodecreases", set()) | {t[1]}
                    i += 1
                elif t[0] == "@@lazyfn":
                    # @@lazyfn <parent fn> <name> :: <params> :: <result type> :: <tail expression>
                    # (the contract of <name> follows as `@@fn <name>`)
                    parts_ = [x.strip() for x in l.split("::", 1)[1].split(" :: ")]
                    # optional 4th part: `name=<regex of the initialiser>; ...` — the captured locals are
                    # recognised by what they are initialised with in the parent, and alpha-renamed to the
                    # parameter names (so that renaming a captured local does not lose the contract)
                    caps_ = []
                    if len(parts_) > 3:
                        for c_ in parts_[3].split(";"):
                            if "=" in c_:
                                caps_.append(tuple(x.strip() for x in c_.split("=", 1)))
                    spec.lazyfns.append(dict(parent=t[1], name=t[2], params=parts_[0], ret=parts_[1], tail=parts_[2], captures=caps_))
                    i += 1
                elif t[0] == "@@freeprobe_at":
                    parts_ = [x.strip() for x in l.split(" :: ")]
                    tg_ = re.search(r"\[([C0-9, ]+)\]", parts_[0])
                    spec.freeprobes_at.append((t[1], tg_.group(1).replace(" ", "") if tg_ else "-", parts_[1].strip(), parts_[2].strip()))
                    i += 1
                elif t[0] == "@@sigrewrite":
                    rest_ = l.split("::", 1)[1]
                    old_, new_ = rest_.split("==>", 1)
                    spec.sigrewrites.append((t[1], old_.strip(), new_.strip()))
                    i += 1
                elif t[0] == "@@nested":
                    buf, i = collect(i + 1)
                    spec.nested.setdefault(t[1], {})[t[2]] = [b for b in buf if b.strip()]
                elif t[0] == "@@loop":
                    buf, i = collect(i + 1)
                    spec.loops.setdefault(t[1], {})[int(t[2])] = [b for b in buf if b.strip()]
                elif t[0] == "@@rewrite":
                    fname = t[1]
                    rest_ = l.split("::", 1)[1]
                    old, new = rest_.split("==>", 1)
                    spec.rewrites.append((fname, old.strip(), new.strip()))
                    i += 1
                elif t[0] == "@@yieldassert":
                    # @@yieldassert <fn> :: <regex of the foreign call> :: <spec expression> [// comment]
                    parts_ = l.split(" :: ", 2)
                    spec.yieldasserts.append((t[1], parts_[1].strip(), parts_[2].strip()))
                    i += 1
                elif t[0] == "@@borrowprobe_at":
                    parts_ = l.split(" :: ", 2)
                    tg_ = re.search(r"\[((?:C\d+\s*,?\s*)+)\]", parts_[0])
                    spec.borrowprobes_at.append((t[1], tg_.group(1).replace(" ", "") if tg_ else "-", parts_[1].strip(), parts_[2].strip()))
                    i += 1
                elif t[0] == "@@borrowprobe":
                    tg_ = re.search(r"\[((?:C\d+\s*,?\s*)+)\]", l.split("::", 1)[0])
                    spec.borrowprobes[(t[1], int(t[2]))] = (l.split("::", 1)[1].strip(), tg_.group(1).replace(" ", "") if tg_ else "")
                    i += 1
                elif t[0] == "@@frame":
                    # @@frame <fn> <field> <FieldType...>
                    spec.frames.append((t[1], t[2], l.split(None, 3)[3].strip()))
                    i += 1
                elif t[0] == "@@silent":
                    spec.silent.append((t[1], l.split(None, 2)[2].strip() if len(t) > 2 else "MutedObserver"))
                    i += 1
                elif t[0] == "@@trusted":
                    spec.trusted.add(t[1])
                    stats["trusted_fns"] += 1
                    i += 1
                elif t[0] == "@@ghostlet":
                    # @@ghostlet <fn> :: let ghost x = <expr>;
                    st_ = l.split(" :: ", 1)[1].strip()
                    if not re.match(r"^let ghost \w+ = [^;]+;$", st_):
                        raise ExtractError("@@ghostlet must be `let ghost <name> = <expr>;`")
                    if not hasattr(spec, "ghostlets"):
                        spec.ghostlets = {}
                    spec.ghostlets.setdefault(t[1], []).append(st_)
                    i += 1
                elif t[0] == "@@assume":
                    parts = l.split(" :: ")
                    spec.assumes.setdefault(t[1], []).append((parts[1].strip(), parts[2].strip() if len(parts) > 2 else ""))
                    stats["assumes"] += 1
                    i += 1
                elif t[0] == "@@only":
                    spec.only = (spec.only or set()) | set(t[1:])
                    i += 1
                elif t[0] == "@@skipfn":
                    spec.skipfn.add(t[1])
                    i += 1
                elif t[0] == "@@subst":
                    a, b = l[len("@@subst"):].split("=>", 1)
                    spec.subst.append((a.strip(), b.strip()))
                    i += 1
                elif t[0] == "@@rewrite_header":
                    a, b = l[len("@@rewrite_header"):].split("==>", 1)
                    spec.header_rewrites.append((a.strip(), b.strip()))
                    i += 1
                elif t[0] == "@@gsubst_header":
                    a, b = l[len("@@gsubst_header"):].split("=>", 1)
                    spec.header_rewrites.append((a.strip(), b.strip()))
                    i += 1
                elif t[0] == "@@dropwhere":
                    spec.dropwhere.append(l[len("@@dropwhere"):].strip())
                    i += 1
                else:
                    raise ExtractError("%s:%d: unknown directive %s" % (template_path, i + 1, t[0]))
            i += 1  # @@end
            out.append(extract_impl(path, header_lit.strip(), kv.get("macro"), args, handle, spec, stats, canary))
            stats["sources"].append("impl %s::%s%s" % (path, re.sub(r"\s+", " ", header_lit.strip()),
                                                      (" via %s!(%s)" % (kv["macro"], kv["args"])) if "macro" in kv else ""))
            continue
        if d == "@@fn":
            kv, rest = parse_kv(toks[1:])
            path, name = rest[0], rest[1]
            args = kv["args"].split(";") if "args" in kv else None
            clauses = []
            loops = {}
            rewrites = []
            sigrewrites = []
            i += 1
            while i < n and lines[i].strip() != "@@end":
                l = lines[i]
                if l.startswith("@@loop"):
                    buf, i = collect(i + 1)
                    loops[int(l.split()[1])] = [b for b in buf if b.strip()]
                    continue
                if l.startswith("@@rewrite"):
                    old, new = l.split("::", 1)[1].split("==>", 1)
                    rewrites.append((old.strip(), new.strip()))
                    i += 1
                    continue
                if l.startswith("@@sigrewrite"):
                    # declared signature rewrite of a free (task) function, R7: a shared handle taken
                    # by value is checked by `&mut`, so that the post-state of its cell is expressible
                    old, new = l.split("::", 1)[1].split("==>", 1)
                    sigrewrites.append((old.strip(), new.strip()))
                    i += 1
                    continue
                if l.strip():
                    clauses.append(l)
                i += 1
            i += 1
            trusted = "trusted" in rest[2:]
            if trusted:
                stats["trusted_fns"] += 1
            out.append(extract_free_fn(path, name, kv.get("macro"), args, clauses, loops, rewrites, stats, canary, trusted,
                                       byref="byref" in rest[2:], ret=kv.get("ret", "r"), sigrewrites=sigrewrites))
            stats["sources"].append("fn %s::%s" % (path, name))
            continue
        raise ExtractError("%s:%d: unknown directive %s" % (template_path, i + 1, d))
    unit_text = "\n".join(out)
    # R15: file-level `const NAME: T = literal;` items of the source files that the extracted text refers to
    # are copied along (a body that starts using a named constant still types)
    consts = []
    have = set(re.findall(r"\b(?:const|static)\s+([A-Z][A-Z0-9_]+)\b", prelude + unit_text))
    used = set(re.findall(r"\b([A-Z][A-Z0-9_]{2,})\b", mask_trivia(unit_text))) - have
    paths = []
    for s_ in stats["sources"]:
        pm_ = re.match(r"\w+\s+(\S+?\.rs)", s_)
        if pm_ and pm_.group(1) not in paths:
            paths.append(pm_.group(1))
    for nm_ in sorted(used):
        for pth in paths:
            try:
                src_ = mask_trivia(source(pth))
                raw_ = source(pth)
            except ExtractError:
                continue
            cm_ = re.search(r"(?m)^(?:pub(?:\([^)]*\))?\s+)?const\s+%s\s*:\s*[\w:<>]+\s*=\s*[^;{}]+;" % re.escape(nm_), src_)
            if cm_:
                consts.append("pub " + re.sub(r"^pub(\([^)]*\))?\s+", "", raw_[cm_.start():cm_.end()]) + " // R15: copied from %s" % pth)
                stats["R15"] = stats.get("R15", 0) + 1
                break
    text = (FILE_HEAD + prelude + "\n// ===== unit text (extracted from /repo + contracts) =====\n"
            + ("\n".join(consts) + "\n" if consts else "") + unit_text + FILE_TAIL)
    return text, stats


if __name__ == "__main__":
    tpl = sys.argv[1]
    for v in variants_of(open(tpl).read()):
        t, st = generate(tpl, v, canary="--canary" in sys.argv)
        sys.stdout.write(t)
        sys.stderr.write(json.dumps(st) + "\n")
