#!/usr/bin/env python3
"""
check.py <property-id> [--tier quick|thorough] [--rebaseline]

Runs every unit tagged with the property (registry.json), decides the property from the
obligations, writes /verif/evidence/<id>.json and prints VIOLATION / KNOWN-FINDING lines.

exit 0  every obligation tagged with the property was discharged (known findings excepted)
exit 1  an obligation tagged with the property fails with a semantic verifier error that is not a
        listed known finding:   VIOLATION property=<id> replay=<path>
exit 2  undecided (lost anchor, unsupported construct, resource limit, tool failure) — no verdict
"""
import os, re, sys, json, time, argparse, hashlib

sys.path.insert(0, os.path.dirname(os.path.abspath(__file__)))
import vrun
import krun

VERIF = vrun.VERIF
def load_registry():
    """every template declares the properties it serves in a `//@ props: C01,C03` header line"""
    import glob
    units = {}
    for d in ("units", "lemmas"):
        for f in sorted(glob.glob(os.path.join(VERIF, "contracts", d, "*.vt"))):
            head = open(f).read(2000)
            m = re.search(r"^//@ props:\s*(.*)$", head, re.M)
            if not m:
                continue
            units[os.path.basename(f)[:-3]] = dict(
                template=os.path.relpath(f, VERIF), engine="verus",
                properties=[x.strip() for x in m.group(1).split(",") if x.strip()],
                thorough_only="//@ thorough-only" in head)
    return {"units": units}


REG = load_registry()


def load_known():
    p = os.path.join(VERIF, "known_findings.json")
    if not os.path.exists(p):
        return []
    return json.load(open(p)).get("findings", [])


def norm(s):
    return re.sub(r"\s+", " ", s or "").strip()


def tags_for_failure(gen_text, failure, unit_props, ftags=None):
    """property tags of a failed clause: nearest `// [Cxx,..]` comment above the clause inside the
    same function, else the `[..]` tag on the fn's contract, else all properties of the unit."""
    if failure.get("tags"):
        return list(failure["tags"])
    lines = gen_text.split("\n")
    m = re.search(r"-->\s*\S+?:(\d+):\d+", failure["text"])
    idx = vrun.fn_index(gen_text)
    if m:
        ln = int(m.group(1))
        span = [(s, e) for (s, e, q) in idx if s <= ln <= e]
        if span:
            s, e = span[-1]
            for k in range(ln - 1, s - 2, -1):
                t = re.search(r"//\s*\[((?:C\d+\s*,?\s*)+)\]", lines[k])
                if t:
                    return [x.strip() for x in t.group(1).split(",") if x.strip()]
    if ftags and ftags.get(failure.get("function")):
        return list(ftags[failure["function"]])
    return list(unit_props)


def fn_tags(gen_text):
    """{qualified fn name: set(tags)} from `// [Cxx]` comments inside each function's span"""
    lines = gen_text.split("\n")
    out = {}
    for (s, e, q) in vrun.fn_index(gen_text):
        tg = set()
        for k in range(s - 1, min(e, len(lines))):
            for t in re.finditer(r"//\s*\[((?:C\d+\s*,?\s*)+)\]", lines[k]):
                tg.update(x.strip() for x in t.group(1).split(",") if x.strip())
        out[q] = tg
    return out


def main():
    ap = argparse.ArgumentParser()
    ap.add_argument("pid")
    ap.add_argument("--tier", default=os.environ.get("VERIF_TIER", "quick"))
    ap.add_argument("--rebaseline", action="store_true")
    a = ap.parse_args()
    pid = a.pid
    t0 = time.time()
    seed = int(os.environ.get("VERIF_SEED", "0") or 0)
    units = [(n, u["template"]) for n, u in REG["units"].items()
             if pid in u["properties"] and u.get("engine", "verus") == "verus"
             and (a.tier == "thorough" or not u.get("thorough_only"))]
    kani_files = [hf for hf in krun.harness_files() if pid in hf["props"]]
    if not units and not kani_files:
        print("no units registered for", pid)
        return 2
    vrun.BUILD = os.path.join(VERIF, "build", "verus", pid + ("_scratch%d" % os.getpid() if os.environ.get("RXRUST_REPO") else ""))
    results = vrun.run_units(units) if units else []
    known = [k for k in load_known() if k["property"] == pid]
    base_p = os.path.join(VERIF, "baseline", "obligations.json")
    baseline = json.load(open(base_p)) if os.path.exists(base_p) else {}

    obligations = []      # names of unit obligations tagged with pid
    discharged = []
    violations = []       # (obligation, failure)
    known_hits = []
    undecided = []
    assumptions = set()
    stats_tot = dict(verbatim_lines=0, added_lines=0, R1=0, R2=0, R4=0, R7=0, R10=0, declared_rewrites=0,
                     silent_obligations=0, trusted_fns=0, assumes=0, R6=0)
    per_unit = []
    sources = []
    for r in results:
        uname = r["unit"]
        uprops = REG["units"][uname.split(".")[0]]["properties"]
        if r["status"] == "undecided":
            undecided.append("%s: %s" % (uname, r["undecided"]))
            per_unit.append(dict(unit=uname, status="undecided", reason=r["undecided"]))
            continue
        gen = open(r["generated"]).read()
        marker_line = gen[: gen.find("// ===== unit text")].count("\n")
        idx = vrun.fn_index(gen)
        unit_fn_names = set(q for (s, e, q) in idx if s > marker_line)
        ftags = fn_tags(gen)
        for k in stats_tot:
            stats_tot[k] += r["stats"].get(k, 0)
        sources += r["stats"]["sources"]
        failed_by_fn = {}
        for f in r["failures"]:
            failed_by_fn.setdefault(f["function"], []).append(f)
        n_obl = 0
        for fname, info in sorted(r["functions"].items()):
            if fname.split("#")[0] not in unit_fn_names:
                continue  # prelude obligations are not counted
            tags = ftags.get(fname.split("#")[0], set())
            relevant = (not tags) or (pid in tags)
            if not relevant:
                continue
            ob = "V:%s::%s" % (uname, fname)
            obligations.append(ob)
            n_obl += 1
            base = fname.split("#")[0]
            fails = failed_by_fn.get(base, []) if "#" not in fname else []
            mine = [f for f in fails if pid in tags_for_failure(gen, f, uprops, ftags)]
            if not mine:
                if info["ok"]:
                    discharged.append(ob)
                else:
                    # failed, but only on clauses that belong to other properties
                    discharged.append(ob)
                continue
            for f in mine:
                kf = [k for k in known if k["obligation"] == ob and norm(k.get("clause", "")) in norm(f["clause"] + " " + f["text"])]
                if kf:
                    known_hits.append((kf[0], ob, f))
                else:
                    violations.append((ob, f, r))
        # semantic failures located outside any indexed unit fn (e.g. in a lemma) still count
        for f in r["failures"]:
            if f["function"] not in r["functions"] and pid in tags_for_failure(gen, f, uprops, ftags):
                ob = "V:%s::%s" % (uname, f["function"])
                if ob not in obligations:
                    obligations.append(ob)
                violations.append((ob, f, r))
        per_unit.append(dict(unit=uname, engine="verus", backend="z3", status=r["status"], obligations=n_obl,
                             solver_s=round(r["solver_s"], 3), wall_s=round(r.get("wall_s", 0), 2),
                             canary=r["canary"], bounded=None,
                             **({"borrow_probes": r["borrow_probes"]} if r.get("borrow_probes") else {}),
                             **({"ownership_conditions": r["ownership_conditions"]} if r.get("ownership_conditions") and pid == "C13" else {}),
                             **({"atomic_sections": r["atomic_sections"]} if r.get("atomic_sections") else {})))
    # ---- Engine K -----------------------------------------------------------------------------
    kani_results, kani_note = krun.run(pid, a.tier) if kani_files else ([], None)
    bounded_checks = []
    kviol = []
    for kr in kani_results:
        ob = "K:%s::%s" % (kr["file"], kr["harness"])
        entry = dict(unit=ob, engine="kani", backend="cbmc+cadical", status=kr["status"], obligations=1,
                     solver_s=round(kr["time_s"], 2), bounded=kr["bounded"], doc=kr["doc"])
        per_unit.append(entry)
        if kr["status"] == "undecided":
            undecided.append("%s: %s" % (ob, kr.get("reason", "")))
            continue
        if kr["bounded"]:
            bounded_checks.append(dict(obligation=ob, bound=kr["bounded"], status=kr["status"]))
        else:
            obligations.append(ob)
            if kr["status"] == "ok":
                discharged.append(ob)
        if kr["status"] == "violated":
            kf = [k for k in known if k["obligation"] == ob and any(norm(k.get("clause", "")) in norm(fc) for fc in kr["failed_checks"])]
            if kf:
                known_hits.append((kf[0], ob, dict(clause="; ".join(kr["failed_checks"]), text=kr["output"], kind="kani assertion")))
            else:
                kviol.append((ob, kr))
    # ---- assumptions: mechanical scan of everything that was verified --------------------------
    scan = {"assume_specification": 0, "external_body": 0, "assume(": 0, "admit(": 0, "axiom ": 0}
    for r in results:
        if r.get("generated") and os.path.exists(r["generated"]):
            g = open(r["generated"]).read()
            for k in scan:
                scan[k] += len(re.findall(re.escape(k), g))
    # itemised: every assumed dependency contract, external_body stand-in / trusted function and
    # inline assumption in the text that was verified on this run (deduplicated over units)
    items = set()
    for r in results:
        if r.get("generated") and os.path.exists(r["generated"]):
            g = open(r["generated"]).read()
            for m in re.finditer(r"assume_specification(?:<[^\[]*>)?\s*\[\s*(.*?)\s*\]", g, re.S):
                items.add("assumed contract on a dependency: " + re.sub(r"\s+", " ", m.group(1)))
            for m in re.finditer(r"#\[verifier::external_body\]\s*(?:pub\s+)?(?:broadcast\s+)?(?:proof\s+)?fn\s+(\w+)", g):
                items.add("external_body (stand-in / trusted body): fn " + m.group(1))
            for m in re.finditer(r"assume\((.*?)\);\s*// ASSUMPTION: (.*)", g):
                items.add("inline assumption: %s — %s" % (m.group(1), m.group(2).strip()))
    for kr in kani_results:
        for m in re.finditer(r"- Stub: (.*)", kr.get("output", "")):
            items.add("Kani stub: " + m.group(1).strip())
    assumed_items = sorted(items)
    allow_p = os.path.join(VERIF, "contracts", "assumptions.allow")
    allow = json.load(open(allow_p)) if os.path.exists(allow_p) else {}

    EVD = os.environ.get("VERIF_EVIDENCE_DIR", os.path.join(VERIF, "evidence"))
    RPD = os.environ.get("VERIF_REPLAY_DIR", os.path.join(VERIF, "replay"))
    os.makedirs(EVD, exist_ok=True)
    os.makedirs(os.path.join(RPD, pid), exist_ok=True)
    exit_code = 0
    out_lines = []
    for (k, ob, f) in known_hits:
        out_lines.append("KNOWN-FINDING: property=%s %s (%s)" % (pid, k["what"], ob))
    seen = set()
    for (ob, f, r) in violations:
        key = (ob, norm(f["clause"]))
        if key in seen:
            continue
        seen.add(key)
        rp = os.path.join(RPD, pid, re.sub(r"\W+", "_", ob) + ".txt")
        with open(rp, "a" if any(("obligation=%s " % ob) in l for l in out_lines) else "w") as fh:
            fh.write("property: %s\nfailed obligation: %s\nkind: %s\nfailed clause: %s\n" % (pid, ob, f["kind"], f["clause"]))
            fh.write("verifier: verus (z3); no counterexample is produced by this back end: no-failing-input-found\n")
            fh.write("generated input: %s\nsources: %s\n\n--- verifier output ---\n%s\n" % (
                r.get("generated"), "; ".join(r["stats"]["sources"]), f["text"]))
        if not any(("obligation=%s " % ob) in l for l in out_lines):
            out_lines.append("VIOLATION property=%s replay=%s obligation=%s kind=%s no-failing-input-found" % (pid, rp, ob, f["kind"].replace(" ", "-")))
        exit_code = 1
    for (ob, kr) in kviol:
        rp = os.path.join(RPD, pid, re.sub(r"\W+", "_", ob) + ".rs")
        with open(rp, "w") as fh:
            fh.write("// property: %s\n// failed obligation: %s  (%s)\n// failed checks: %s\n" % (pid, ob, kr["doc"], "; ".join(kr["failed_checks"])))
            fh.write("// native replay of the counterexample on the real code: %s\n" % kr.get("native_replay", "not run"))
            if kr.get("playback"):
                fh.write("// Counterexample found by CBMC, as a unit test that re-runs the harness body (real rxRust code)\n"
                         "// with the concrete values (run with `cargo kani playback -Z concrete-playback`):\n\n" + kr["playback"] + "\n")
            fh.write("\n/* --- verifier output ---\n%s\n*/\n" % kr["output"].replace("*/", "* /"))
            if kr.get("native_output"):
                fh.write("\n/* --- native replay output ---\n%s\n*/\n" % kr["native_output"].replace("*/", "* /"))
        confirmed = "FAILED natively" in kr.get("native_replay", "")
        out_lines.append("VIOLATION property=%s replay=%s obligation=%s kind=kani-assertion%s" % (
            pid, rp, ob, " counterexample-replayed-on-real-code" if confirmed else " no-failing-input-found"))
        seen.add((ob, "kani"))
        exit_code = 1
    if undecided and exit_code == 0:
        exit_code = 2
    # vacuity / guards
    if not obligations and exit_code == 0:
        undecided.append("zero obligations for the property")
        exit_code = 2

    # obligations that fail ONLY as listed known findings are reported as findings, not counted as
    # obligations of the proof claim (so obligations == discharged whenever nothing else fails)
    kf_obs = sorted(set(ob for (k, ob, f) in known_hits))
    viol_obs = set(ob for (ob, f, r) in violations) | set(ob for (ob, kr) in kviol)
    for ob in kf_obs:
        if ob not in viol_obs and ob in obligations and ob not in discharged:
            obligations.remove(ob)
    props = [json.loads(l) for l in open(os.path.join(VERIF, "properties.jsonl"))]
    trusted = [
        "Verus 0.2026.09.13 + Z3 (soundness of the verifier)",
        "Kani 0.68 + CBMC 6.11 + cadical for the K: obligations (loop-free full-domain harnesses count as proved; harnesses marked bounded are listed under bounded_checks and are NOT counted in obligations/discharged)",
        "contract vocabulary /verif/contracts/prelude.rs (definitions; recorder/delivered witnesses rest on linearity and parametricity of generic by-value observers)",
        "extraction rules R1-R18 of engine/extract.py (syntactic; counted below)",
        "one-handle stand-in for MutRc/MutArc with a ghost cell identity: simultaneous access through two handles and dynamic borrow/lock acquisition are not modelled (lock scopes only through the borrow / free probes and the Kani lock-scope harnesses)",
        "closures are total and deterministic (Verus models FnMut as a pure relation)",
    ]
    ev = dict(
        property_id=pid, tier=a.tier, seed=seed, level="proof",
        coverage=dict(
            obligations=len(obligations), discharged=len(discharged),
            checker_cmd="verus <generated>.rs --output-json --time --rlimit %s  (one file per unit, regenerated from /repo on this run)" % vrun.RLIMIT,
            trusted_base=trusted,
            samples=obligations[:40],
            units=per_unit,
            extraction=stats_tot,
            extracted_items=sorted(set(sources)),
            assumption_scan=scan,
            assumed_items=assumed_items,
            known_findings_reported=[k["what"] for (k, ob, f) in known_hits],
            bounded_checks=bounded_checks,
            known_finding_obligations=kf_obs,
            kani_note=kani_note,
            undecided=undecided,
            explanation="each obligation is one real rxRust function (text extracted from /repo on this run) verified against its contract, or one Layer-2 lemma over the contracts' spec functions",
        ),
        assumptions=trusted + ["assume_specification / external_body occurrences in the verified text: %s" % json.dumps(scan)],
        wall_s=round(time.time() - t0, 2),
        violations=len(seen),
    )
    if a.tier == "thorough" and not os.environ.get("RXRUST_REPO"):
        # thorough tier: mutation self-test of this check against the seeded breaking changes
        import subprocess
        st = subprocess.run([sys.executable, os.path.join(VERIF, "engine", "selftest.py"), pid], capture_output=True, text=True)
        try:
            stj = json.loads(st.stdout)
        except Exception:
            stj = {"error": (st.stdout + st.stderr)[-500:]}
        ev["coverage"]["mutation_selftest"] = dict(
            seeds=len(stj), detected=len([1 for v in stj.values() if isinstance(v, dict) and v.get("exit") == 1]), detail=stj,
            explanation="each seeded property-breaking change (/verif/seeded) applied to a scratch copy of /repo; detected = this check exits 1")
        ev["wall_s"] = round(time.time() - t0, 2)
    json.dump(ev, open(os.path.join(EVD, pid + ".json"), "w"), indent=1)
    for l in out_lines:
        print(l)
    for u in undecided:
        print("UNDECIDED property=%s %s" % (pid, u))
    print("property=%s tier=%s obligations=%d discharged=%d violations=%d known=%d undecided=%d wall=%.1fs exit=%d" % (
        pid, a.tier, len(obligations), len(discharged), len(seen), len(known_hits), len(undecided), time.time() - t0, exit_code))
    return exit_code


if __name__ == "__main__":
    sys.exit(main())
