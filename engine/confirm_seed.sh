#!/bin/bash
# confirm_seed.sh <agent-worktree> <seed-name>
# Independently confirms a seeded change in a FRESH scratch worktree of /repo HEAD:
#  suite passes with the change, demo fails with it, demo passes without it.
# On success stores patch.diff, demo, meta.json (+ our confirmation log) in /verif/seeded/<seed-name>/.
set -u
SRC=$1; NAME=$2
WT=/tmp/confirm/$NAME
OUT=/verif/seeded/$NAME
rm -rf $WT; mkdir -p /tmp/confirm
git -C /repo worktree add -q --detach $WT HEAD || exit 3
export CARGO_NET_OFFLINE=true CARGO_TARGET_DIR=$WT/target
cd $WT
demo=$(ls $SRC/tests/demo_*.rs | head -1)
mkdir -p tests; cp $demo tests/
dn=$(basename $demo .rs)
log=$WT/confirm.log; : > $log
echo "== demo on unmodified tree (must pass)" >> $log
cargo test --offline --test $dn >> $log 2>&1; r_clean=$?
git apply $SRC/patch.diff >> $log 2>&1 || { echo "patch does not apply" >> $log; r_apply=1; }
echo "== lib suite with change (must pass; the known-flaky ops::delay::tests::shared_smoke is tolerated: up to 3 runs)" >> $log
libres="none"
for attempt in 1 2 3; do
  cargo test --lib --offline > $WT/lib.out 2>&1
  libres=$(grep -E "^test result" $WT/lib.out | tail -1)
  echo "attempt $attempt: $libres" >> $log
  grep -E "^test .* FAILED" $WT/lib.out >> $log
  if echo "$libres" | grep -q " 0 failed"; then break; fi
  others=$(grep -E "^test .* FAILED" $WT/lib.out | grep -v shared_smoke | wc -l)
  if [ $others -ne 0 ]; then break; fi
done
echo "== doc tests with change" >> $log
cargo test --doc --offline 2>&1 | grep -E "^test result" >> $log
docres=$(grep -E "^test result" $log | tail -1)
echo "== demo with change (must fail)" >> $log
cargo test --offline --test $dn >> $log 2>&1; r_mut=$?
ok=0
if [ $r_clean -eq 0 ] && [ $r_mut -ne 0 ] && echo "$libres" | grep -q " 0 failed" && echo "$docres" | grep -q " 0 failed"; then ok=1; fi
echo "clean_demo_exit=$r_clean mutated_demo_exit=$r_mut lib='$libres' doc='$docres' CONFIRMED=$ok" | tee -a $log
if [ $ok -eq 1 ]; then
  mkdir -p $OUT; cp $SRC/patch.diff $OUT/; cp $demo $OUT/; cp $SRC/meta.json $OUT/meta.agent.json 2>/dev/null
  tail -5 $log > $OUT/confirm.txt
fi
cp $log /tmp/confirm/$NAME.log 2>/dev/null; cd /; git -C /repo worktree remove --force $WT
exit $((1-ok))
