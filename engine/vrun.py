#!/usr/bin/env python3
"""
Engine V, part 2: generate the Verus inputs of a set of units from /repo's working tree, run
`verus` on each (normal file + canary file) in parallel, and classify every obligation.

Result per unit-variant:
  status      'ok' | 'violated' | 'undecided'
  functions   {name: {'ok': bool, 'rlimit': int, 'micros': int}}     one obligation group per fn
  failures    [{'function', 'kind', 'clause', 'text'}]                semantic verifier errors
  undecided   reason string when extraction/typing/rlimit problems prevent a verdict
  canary      {'expected': n, 'failed': n}  (every contracted fn must FAIL with `ensures false`)
"""
import os, re, sys, json, time, subprocess, hashlib, shutil
from concurrent.futures import ThreadPoolExecutor

sys.path.insert(0, os.path.dirname(os.path.abspath(__file__)))
import extract
from extract import ExtractError

VERIF = extract.VERIF
BUILD = os.path.join(VERIF, "build", "verus")
VERUS = shutil.which("verus") or "/usr/local/bin/verus"
RLIMIT = os.environ.get("VERIF_RLIMIT", "40")
import threading
GEN_LOCK = threading.Lock()

SEMANTIC = [
    "postcondition not satisfied",
    "precondition not satisfied",
    "assertion failed",
    "invariant not satisfied",
    "possible arithmetic underflow/overflow",
    "possible division by zero",
    "decreases not satisfied",
    "unreachable_code reached",
    "could not prove termination",
    "recommendation not met",
    "index out of bounds",
    "possible bit shift",
]


def fn_index(text):
    """[(start_line, end_line, qualified_name)] for every fn with a body in the generated text"""
    res = []
    marker = text.find("// ===== unit text")
    # impl / trait blocks
    blocks = []
    for m in re.finditer(r"^\s*(?:pub\s+)?(impl\b[^{;]*|trait\s+\w+[^{;]*)\{", text, re.M):
        try:
            e = extract.match_close(text, m.end() - 1)
        except ExtractError:
            continue
        head = re.sub(r"\s+", " ", m.group(1)).strip()
        hm = re.search(r"\bfor\s+([\w:]+)", head)
        if hm:
            nm = hm.group(1)
        else:
            hm = re.search(r"(?:impl(?:<[^>]*>)?|trait)\s+([\w:]+)", head)
            nm = hm.group(1) if hm else head
        blocks.append((m.start(), e, nm, head))
    for m in re.finditer(r"\bfn\s+(\w+)", text):
        ls = text.rfind("\n", 0, m.start()) + 1
        if "//" in text[ls:m.start()]:
            continue
        # find body '{' (skip signature + contract clauses): first '{' at paren depth 0 that is not
        # inside a spec expression is hard to know; contract blocks may contain braces.  We rely on
        # the generator's layout: the body opener is a line that starts with '{'.
        j = m.end()
        n = len(text)
        pd = 0
        body = None
        semi = None
        while j < n:
            k = extract.skip_trivia(text, j)
            if k != j:
                j = k
                continue
            c = text[j]
            if c in "([":
                pd += 1
            elif c in ")]":
                pd -= 1
            elif c == ";" and pd == 0:
                semi = j
                break
            elif c == "{" and pd == 0:
                # body opener if first non-space on its line, or directly after signature w/o clauses
                ls2 = text.rfind("\n", 0, j) + 1
                before = text[ls2:j].strip()
                if before == "" or not re.search(r"\b(requires|ensures|decreases|recommends|invariant)\b", text[m.end():j]):
                    body = j
                    break
                # brace inside a clause: skip it
                j = extract.match_close(text, j)
            j += 1
        if body is None:
            continue
        try:
            e = extract.match_close(text, body)
        except ExtractError:
            continue
        owner = ""
        for (bs, be, nm, head) in blocks:
            if bs < m.start() < be:
                owner = nm
        sl = text.count("\n", 0, m.start()) + 1
        el = text.count("\n", 0, e) + 1
        q = (owner + "::" if owner else "") + m.group(1)
        res.append((sl, el, q))
    return res


def parse_errors(stderr, gen_text, fname):
    """split rustc-style diagnostics; return (semantic_failures, other_errors)"""
    idx = fn_index(gen_text)
    lines = gen_text.split("\n")
    # top-level diagnostics: errors, and the "automatically chose triggers" notes, which are diagnostics of their own
    # (their locations must not be attributed to the error printed before them)
    blocks = re.split(r"\n(?=error|note: automatically chose triggers|note: Verus printed one or more)", "\n" + stderr)
    sem, other = [], []
    for b in blocks:
        b = b.strip()
        if not b.startswith("error"):
            continue
        head = b.split("\n", 1)[0]
        if head.startswith("error: aborting") or "previous error" in head:
            continue
        kind = None
        for s in SEMANTIC:
            if s in head:
                kind = s
                break
        locs = [int(x) for x in re.findall(r"-->\s*\S+?:(\d+):\d+", b)]
        locs += [int(x) for x in re.findall(r"^\s*(\d+)\s*\|", b, re.M)]
        fn = None
        marker_line = gen_text[: gen_text.find("// ===== unit text")].count("\n")
        # prefer a location inside the unit text: the first location of a failed trait-level
        # postcondition is the trait declaration in the prelude
        for l in [x for x in locs if x > marker_line] + [x for x in locs if x <= marker_line]:
            cands = [q for (s, e, q) in idx if s <= l <= e]
            if cands:
                fn = cands[-1]
                break
        clause = ""
        cm = re.search(r"-->\s*\S+?:(\d+):\d+", b)
        if cm:
            ln = int(cm.group(1))
            if 0 < ln <= len(lines):
                clause = lines[ln - 1].strip()
        if kind:
            sem.append(dict(function=fn or "?", kind=kind, clause=clause, text=b[:3000]))
        else:
            other.append(dict(function=fn, head=head, text=b[:1500]))
    return sem, other


def run_verus(path, extra=()):
    t0 = time.time()
    try:
        p = subprocess.run([VERUS, path, "--output-json", "--time", "--rlimit", RLIMIT, "--multiple-errors", "20"] + list(extra),
                           capture_output=True, text=True, timeout=600, cwd=os.path.dirname(os.path.abspath(path)) or None)
    except subprocess.TimeoutExpired:
        return None, "verus timeout (600 s)", time.time() - t0
    try:
        js = json.loads(p.stdout)
    except Exception:
        js = None
    return js, p.stderr, time.time() - t0


def breakdown(js, crate):
    fns = {}
    if not js or "times-ms" not in js:
        return fns
    for mod in js["times-ms"].get("smt", {}).get("smt-run-module-times", []):
        for f in mod.get("function-breakdown", []):
            name = f["function"]
            if name.startswith(crate + "::"):
                name = name[len(crate) + 2:]
            if name in fns:
                # two impls with the same Type::fn name in one unit: keep them apart, and never let a
                # success hide a failure
                k = 2
                while "%s#%d" % (name, k) in fns:
                    k += 1
                fns["%s#%d" % (name, k)] = dict(ok=bool(f["success"]), rlimit=f.get("rlimit", 0), micros=f.get("time-micros", 0))
                fns[name]["ok"] = fns[name]["ok"] and bool(f["success"])
                continue
            fns[name] = dict(ok=bool(f["success"]), rlimit=f.get("rlimit", 0), micros=f.get("time-micros", 0))
    return fns


INVENTORY_PATH = os.path.join(VERIF, "contracts", "inventory.json")
_INV = None


def inventory():
    """function names each unit-variant contained when its contracts were written (committed file,
    regenerated by `vrun.py --inventory` on a tree where every check passes)"""
    global _INV
    if _INV is None:
        try:
            _INV = json.load(open(INVENTORY_PATH))
        except Exception:
            _INV = {}
    return _INV


def unit_fn_names(text):
    marker_line = text[: text.find("// ===== unit text")].count("\n")
    return sorted(set(q for (s, e, q) in fn_index(text) if s > marker_line))


def unit_loop_counts(text):
    """{qualified fn name: number of loops in its text} for the unit part of a generated file"""
    marker_line = text[: text.find("// ===== unit text")].count("\n")
    masked = extract.mask_trivia(text).split("\n")
    out = {}
    for (s, e, q) in fn_index(text):
        if s > marker_line:
            seg = "\n".join(masked[s - 1:e])
            out[q] = out.get(q, 0) + len(re.findall(r"\b(while|for|loop)\b", seg))
    return out


CLOSURE_RX = re.compile(r"(?:(?<=[(,=])|(?<=\bmove))\s*\|[^|\n]*\|")


def unit_closure_counts(text):
    """{qualified fn name: number of closure literals in its body} for the unit part of a generated file
    (contract text between signature and body is not counted: quantifier binders look like closures)"""
    marker_line = text[: text.find("// ===== unit text")].count("\n")
    masked = extract.mask_trivia(text).split("\n")
    out = {}
    for (s, e, q) in fn_index(text):
        if s > marker_line:
            seg = masked[s - 1:e]
            # body starts at the first line that is exactly "{"
            b0 = next((k for k, l_ in enumerate(seg) if l_.startswith("{")), 0)
            body = "\n".join(seg[b0:])
            body = re.sub(r"\b(assert|invariant|ensures|requires|decreases)\b[^;]*;", "", body)
            n_ = 0
            for cm_ in CLOSURE_RX.finditer(body):
                # only closures that can act through a mutable reference matter (that effect is what Verus
                # loses): the closure's parameters mention `mut`, or the call chain it is passed to starts from
                # a mutable borrow (`..as_mut().and_then(|d| ..)`, `..iter_mut().map(|x| ..)`, `rc_deref_mut()`)
                k_ = max(body.rfind(";", 0, cm_.start()), body.rfind("{", 0, cm_.start()), body.rfind("}", 0, cm_.start()))
                chain_ = body[k_ + 1:cm_.start()]
                if re.search(r"\bmut\b", cm_.group(0)) or re.search(r"(as_mut|iter_mut|_mut)\s*\(", chain_):
                    n_ += 1
            out[q] = out.get(q, 0) + n_
    return out


def reclassify_unknown_callees(res, text, tag):
    """A function that the contracts have never seen (e.g. a helper a refactoring extracted) has no
    contract, so its callers cannot be proved whatever it does: a failure in a function that calls
    such a function — or inside it — is UNDECIDED ("needs contract"), never a violation."""
    inv = inventory().get(tag)
    if inv is None:
        return
    if isinstance(inv, dict):
        inv_all = inv
        loops0 = inv.get("loops", {})
        inv = inv.get("functions", [])
        # loop contracts are attached by ordinal: when a function's number of loops differs from what
        # the contracts were written for they may sit on the wrong loop — a failure there is no verdict
        now = unit_loop_counts(text)
        # (a function that has NO loop left carries no loop contract any more — they are dropped — so its
        #  postcondition decides as usual)
        # (nor can anything be mis-attached in a function that had no loop, hence no loop contract, before)
        changed = [q for q, n_ in now.items() if q in loops0 and loops0[q] != n_ and n_ > 0 and loops0[q] > 0]
        moved_ = [f for f in res["failures"] if f["function"] in changed]
        if moved_:
            res["failures"] = [f for f in res["failures"] if f not in moved_]
            res.setdefault("needs_contract", []).extend(
                "%s (%s; its loop structure changed: %d loops, the loop contracts were written for %d)" % (
                    f["function"], f["kind"], now[f["function"]], loops0[f["function"]]) for f in moved_)
        # closures: Verus knows a closure only through its (inferred) specification, and what a closure does
        # through a `&mut` parameter is lost — a function that GAINED a closure literal (e.g. `opt.and_then(|d|
        # d.queue.pop_front())` replacing an `if let`) cannot be proved whatever it does: no verdict from its
        # proof obligations (probe obligations, decided by the borrow checker, are not affected)
        clos0 = inv_all.get("closures")
        if clos0 is not None:
            cnow = unit_closure_counts(text)
            gained = [q for q, n_ in cnow.items() if q in clos0 and n_ > clos0[q]]
            moved_ = [f for f in res["failures"] if f["function"] in gained and not f.get("tags")]
            if moved_:
                res["failures"] = [f for f in res["failures"] if f not in moved_]
                res.setdefault("needs_contract", []).extend(
                    "%s (%s; the function gained a closure over a mutable borrow that the contracts do not know: %d, was %d)" % (
                        f["function"], f["kind"], cnow[f["function"]], clos0[f["function"]]) for f in moved_)
    unknown = [q for q in unit_fn_names(text) if q not in inv]
    if not unknown:
        return
    res["unknown_functions"] = unknown
    short = set(q.split("::")[-1] for q in unknown)
    idx = fn_index(text)
    lines = text.split("\n")
    keep, moved = [], []
    for f in res["failures"]:
        rng = [(s, e) for (s, e, q) in idx if q == f["function"]]
        body = "\n".join(lines[rng[-1][0] - 1: rng[-1][1]]) if rng else ""
        calls_unknown = any(re.search(r"\b%s\s*(?:::<[^>]*>)?\(" % re.escape(n), body) for n in short)
        if f["function"] in unknown or calls_unknown:
            moved.append(f)
        else:
            keep.append(f)
    if moved:
        res["failures"] = keep
        res["needs_contract"] = ["%s (%s)" % (f["function"], f["kind"]) for f in moved]


def run_unit(unit_name, template_rel, variant):
    """returns result dict for one unit-variant; when Verus cannot type the unit because it calls a function or
    method the unit does not contain, the unit is generated once more with that helper inlined (rule R16)"""
    res = run_unit_(unit_name, template_rel, variant, ())
    if res["status"] == "undecided" and res.get("unknown_functions") and "needs contract" in (res.get("undecided") or ""):
        # a helper the contracts have never seen, extracted along with its impl block: if it is a single-expression
        # function it is inlined at its call sites (R16), so that its callers are decided on the code that runs
        names = tuple(sorted(set(q.split("::")[-1] for q in res["unknown_functions"])))
        res2 = run_unit_(unit_name, template_rel, variant, names)
        if (res2.get("stats") or {}).get("R16"):
            res2["inlined_helpers"] = list(names)
            return res2
    if res["status"] == "undecided" and res.get("undecided") and "could not process" in res["undecided"]:
        names = set(re.findall(r"no method named `(\w+)` found", res.get("stderr", "") + res["undecided"]))
        names |= set(re.findall(r"cannot find function `(\w+)` in this scope", res.get("stderr", "") + res["undecided"]))
        names |= set(re.findall(r"no (?:associated )?function or (?:associated item|constant) named `(\w+)` found", res.get("stderr", "") + res["undecided"]))
        if names:
            res2 = run_unit_(unit_name, template_rel, variant, tuple(sorted(names)))
            if (res2.get("stats") or {}).get("R16"):
                res2["inlined_helpers"] = sorted(names)
                return res2
    return res


def run_unit_(unit_name, template_rel, variant, inline):
    """one generation + verification pass"""
    tag = unit_name + ("" if not variant else "." + "_".join(list(variant.values())[:2]))
    crate = re.sub(r"\W", "_", tag)
    res = dict(unit=tag, status="ok", functions={}, failures=[], undecided=None, canary=None, stats=None,
               solver_s=0.0, template=template_rel, variant=variant)
    tpl = os.path.join(VERIF, template_rel)
    os.makedirs(BUILD, exist_ok=True)
    try:
        with GEN_LOCK:   # the generator keeps per-template state; only verus runs in parallel
            extract.INLINE_HELPERS = tuple(inline)
            text, stats = extract.generate(tpl, variant, canary=False)
            ctext, _ = extract.generate(tpl, variant, canary=True)
            ptext = None
            tpl_text_ = open(tpl).read() + "".join(open(os.path.join(VERIF, "contracts", m_)).read() for m_ in re.findall(r"^@@include\s+(\S+)", open(tpl).read(), re.M) if os.path.exists(os.path.join(VERIF, "contracts", m_)))
            if "@@borrowprobe" in tpl_text_ or "@@freeprobe" in tpl_text_:
                ptext, _ = extract.generate(tpl, variant, canary=False, probe=True)
            extract.INLINE_HELPERS = ()
    except ExtractError as e:
        extract.INLINE_HELPERS = ()
        res["status"] = "undecided"
        res["undecided"] = "extraction: %s" % e
        return res
    except Exception as e:  # defensive: a generator bug must never look like a violation
        res["status"] = "undecided"
        res["undecided"] = "extractor failure: %r" % e
        return res
    res["stats"] = stats
    if "/lemmas/" in template_rel.replace("\\", "/") or template_rel.startswith("contracts/lemmas"):
        body_ = text[text.find("// ===== unit text"):]
        bad = [k for k in ("assume(", "admit(", "external_body", "assume_specification", "axiom") if k in body_]
        if bad:
            res["status"] = "undecided"
            res["undecided"] = "Layer-2 lemma file contains unchecked assumptions: %s" % bad
            return res
    path = os.path.join(BUILD, crate + ".rs")
    cpath = os.path.join(BUILD, crate + "__canary.rs")
    open(path, "w").write(text)
    open(cpath, "w").write(ctext)
    res["generated"] = path
    js, err, wall = run_verus(path)
    res["wall_s"] = wall
    if js is None:
        res["status"] = "undecided"
        res["undecided"] = "verus produced no JSON: %s" % (err or "")[:500]
        return res
    res["functions"] = breakdown(js, crate)
    res["solver_s"] = sum(f["micros"] for f in res["functions"].values()) / 1e6
    vr = js.get("verification-results", {})
    sem, other = parse_errors(err or "", text, path)
    res["failures"] = sem
    reclassify_unknown_callees(res, text, tag)
    # an addition / multiplication that cannot be proved to stay below the machine limit is not a
    # violation of any listed property (2^64 notifications are not reachable) — no verdict from it
    # alone; a possible UNDERFLOW (a subtraction) is a logic error and stays a semantic failure
    soft = [f for f in res["failures"] if f["kind"] == "possible arithmetic underflow/overflow"
            and "-" not in re.sub(r"->|//.*", "", f["clause"])]
    if soft:
        res["failures"] = [f for f in res["failures"] if f not in soft]
        res.setdefault("needs_contract", []).extend("%s (possible overflow of an increment: `%s`)" % (f["function"], f["clause"][:60]) for f in soft)
    sem = res["failures"]
    res["stderr"] = (err or "")[-6000:]
    # ownership conditions on operator values (structural, decided on the extracted struct definitions;
    # independent of the solver, so they are evaluated even when Verus cannot type the changed unit)
    own_fail = []
    if (stats or {}).get("plain_values"):
        res["ownership_conditions"] = []
        for (sname, spath, cells_, otags_) in stats["plain_values"]:
            res["ownership_conditions"].append(dict(struct=sname, file=spath, status="plain value" if not cells_ else "holds a shared cell: " + ", ".join(cells_)))
            if cells_:
                own_fail.append(dict(function="%s (operator value is plain data)" % sname, tags=otags_,
                                     kind="ownership condition not satisfied",
                                     clause="struct %s holds no shared mutable cell" % sname,
                                     text="the operator value `%s` (%s) has a field whose type mentions %s: the derived Clone shares that cell between the subscriptions of clones of one pipeline (per-subscription state must be created in actual_subscribe)" % (sname, spath, ", ".join(cells_))))
    # atomic sections (structural): a function declared atomic acquires its cell exactly once
    if (stats or {}).get("atomic_sections"):
        res["atomic_sections"] = []
        seen_ = set()
        for (fn_, atags_, cell_, n_acq) in stats["atomic_sections"]:
            if (fn_, cell_) in seen_:
                continue
            seen_.add((fn_, cell_))
            res["atomic_sections"].append(dict(function=fn_, cell=cell_, acquisitions=n_acq))
            if n_acq > 1:
                owner_ = [q for q in res["functions"] if q.split("::")[-1] == fn_]
                own_fail.append(dict(function=owner_[0] if owner_ else fn_, tags=[x for x in atags_ if x.startswith("C")],
                                     kind="lock scope (check-then-act: the cell is acquired %d times)" % n_acq,
                                     clause="@@atomic %s :: %s" % (fn_, cell_),
                                     text="`%s` must decide and act under ONE acquisition of the cell `%s` (one RefCell borrow / one Mutex critical section); the body acquires it %d times, so another handle can unsubscribe / append between the check and the action" % (fn_, cell_, n_acq)))
    if other or vr.get("encountered-vir-error"):
        if own_fail:
            # the struct-level obligation is decided although the rest of the unit is not
            res["failures"] = own_fail
            res["status"] = "violated"
            res["undecided_rest"] = "verus could not process the unit: " + "; ".join(o["head"] for o in other)[:300]
            return res
        res["status"] = "undecided"
        res["undecided"] = "verus could not process the unit: " + "; ".join(o["head"] for o in other)[:600]
        return res
    if own_fail:
        res["failures"].extend(own_fail)
        sem = res["failures"]
    if "rlimit" in (err or "").lower() and "exceeded" in (err or "").lower():
        res["status"] = "undecided"
        res["undecided"] = "resource limit exceeded"
        return res
    failed_fns = [k for k, v in res["functions"].items() if not v["ok"]]
    pending_undecided = None
    if res.get("needs_contract") and not sem:
        pending_undecided = ("no verdict (needs contract): %s%s" % ("; ".join(sorted(set(res["needs_contract"]))),
                             (" — functions unknown to the contracts: " + ", ".join(res["unknown_functions"])) if res.get("unknown_functions") else ""))
        if ptext is None:
            res["status"] = "undecided"
            res["undecided"] = pending_undecided
            return res
        # the probe obligations (decided by the borrow checker, not by the solver) are still evaluated below
    if pending_undecided is None and (sem or failed_fns or not vr.get("success", False)):
        if not sem:
            res["status"] = "undecided"
            res["undecided"] = "verus reported failure without a located semantic error"
            return res
        res["status"] = "violated"
    if not res["functions"]:
        res["status"] = "undecided"
        res["undecided"] = "zero obligations generated"
        return res
    if res["status"] == "ok" and (stats or {}).get("yield_points_missing"):
        why_ = "yield point(s) no longer found, the re-entry obligation could not be placed: " + "; ".join(stats["yield_points_missing"])
        pending_undecided = why_ if pending_undecided is None else pending_undecided + "; " + why_
        if ptext is None:
            res["status"] = "undecided"
            res["undecided"] = pending_undecided
            return res
    # borrow probes: lock-scope obligations discharged by the borrow checker
    if ptext is not None and res["status"] != "undecided":
        ppath = os.path.join(BUILD, crate + "__probe.rs")
        open(ppath, "w").write(ptext)
        # type, mode and LIFETIME (borrow) checking only: the proof obligations of this text are decided on
        # the normal file, here only the borrow checker's answer at the probe lines is wanted
        pj, perr, pw = run_verus(ppath, ["--no-verify"])
        plines = ptext.split("\n")
        probes = []
        pidx = fn_index(ptext)
        for i_, l_ in enumerate(plines):
            pm_ = re.search(r"/\*(BORROWPROBE|FREEPROBE) (\S+) (\S+)\*/", l_)
            if pm_:
                owner = [q for (s_, e_, q) in pidx if s_ <= i_ + 1 <= e_]
                probes.append((i_ + 1, pm_.group(2), [x for x in pm_.group(3).split(",") if x.startswith("C")], owner[-1] if owner else pm_.group(2), pm_.group(1) == "FREEPROBE"))
        res["borrow_probes"] = []
        pblocks = [b for b in re.split(r"\n(?=error)", "\n" + (perr or "")) if b.strip().startswith("error")]
        free_lines = [ln for (ln, _, _, _, fr_) in probes if fr_]
        def moved_at_free_probe(b):
            # E0382 at a free-probe line: the handle was already moved (see below) — not an evaluation problem
            return re.search(r"error\[E0382\]", b) and any(re.search(r"^\s*%d\s*\|" % fl, b, re.M) for fl in free_lines)
        for (ln, pname, ptags, owner, must_be_free) in probes:
            hit = [b for b in pblocks if re.search(r"error\[E0(502|499|503|506|505)\]", b) and re.search(r"^\s*%d\s*\|" % ln, b, re.M)]
            other = [b for b in pblocks if not re.search(r"error\[E0(502|499|503|506|505)\]", b) and "aborting due to" not in b and not moved_at_free_probe(b)]
            if must_be_free:
                # the converse probe: a mutable use of the cell right before the foreign call must be ACCEPTED.
                # E0382 at the probe line (the handle was already MOVED, e.g. into the inner observer) also
                # means "free": a live borrow of the handle would have made that move itself an error (E0505)
                if hit:
                    res["borrow_probes"].append(dict(probe=pname, status="LENT at a call that may re-enter the cell"))
                    if owner in res["functions"]:
                        res["functions"][owner]["ok"] = False
                    res["failures"].append(dict(function=owner, tags=ptags, kind="lock scope (cell still lent at a re-entrant call)",
                                                clause=plines[ln - 1].strip(),
                                                text="`%s` hands control to code that may come back through the same cell while a borrow / lock guard of that cell is still alive (real code: RefCell double borrow panic, Mutex self-deadlock); the borrow checker rejected a use of the cell placed right before the call\n%s" % (pname.rsplit(".", 1)[0], hit[0][:1500])))
                    res["status"] = "violated"
                elif other:
                    res["borrow_probes"].append(dict(probe=pname, status="undecided: " + other[0].split("\n", 1)[0][:200]))
                    res["status"] = "undecided"
                    res["undecided"] = "free probe %s could not be evaluated: %s" % (pname, other[0].split("\n", 1)[0][:200])
                else:
                    res["borrow_probes"].append(dict(probe=pname, status="free (accepted by the borrow checker, as required)"))
                continue
            if hit:
                res["borrow_probes"].append(dict(probe=pname, status="lent (rejected by the borrow checker, as required)"))
            elif other:
                res["borrow_probes"].append(dict(probe=pname, status="undecided: " + other[0].split("\n", 1)[0][:200]))
                res["status"] = "undecided"
                res["undecided"] = "borrow probe %s could not be evaluated: %s" % (pname, other[0].split("\n", 1)[0][:200])
            else:
                # the probe text was ACCEPTED: the cell is not lent while the callbacks run
                fn_ = pname.rsplit(".", 1)[0]
                res["borrow_probes"].append(dict(probe=pname, status="NOT lent"))
                if owner in res["functions"]:
                    res["functions"][owner]["ok"] = False
                res["failures"].append(dict(function=owner, tags=ptags, kind="lock scope (borrow probe accepted)",
                                            clause=plines[ln - 1].strip(),
                                            text="the loop of `%s` that runs the callbacks does not hold the cell borrowed: the probe invariant that mentions the cell was accepted by the borrow checker (it must be rejected with E0502)\n%s" % (fn_, (perr or "")[-1500:])))
                res["status"] = "violated"
        if res["status"] == "undecided":
            return res
    if pending_undecided is not None and res["status"] != "violated":
        res["status"] = "undecided"
        res["undecided"] = pending_undecided
        return res
    # canary: every contracted function must fail when `false` is added to its postcondition
    cj, cerr, cw = run_verus(cpath)
    expected = len(re.findall(r"assert\(false\); // CANARY", ctext))
    csem, cother = parse_errors(cerr or "", ctext, cpath)
    cfailed = len([f for f in csem if "CANARY" in f["clause"]])
    res["canary"] = dict(expected=expected, failed=cfailed)
    if res["status"] == "ok" and (cother or cfailed < expected):
        res["status"] = "undecided"
        res["undecided"] = "vacuity guard: %d of %d canaries failed as they must (%s)" % (
            cfailed, expected, "; ".join(o["head"] for o in cother)[:300])
    return res


def run_units(units, jobs=16):
    """units: list of (unit_name, template_rel).  Returns list of results (one per variant)."""
    work = []
    for (name, tpl) in units:
        try:
            vs = extract.variants_of(open(os.path.join(VERIF, tpl)).read())
        except Exception as e:
            vs = [{}]
        for v in vs:
            work.append((name, tpl, v))
    with ThreadPoolExecutor(max_workers=jobs) as ex:
        return list(ex.map(lambda w: run_unit(*w), work))


if __name__ == "__main__":
    if sys.argv[1:] == ["--inventory"]:
        import glob
        inv = {}
        for f in sorted(glob.glob(os.path.join(VERIF, "contracts", "units", "*.vt")) + glob.glob(os.path.join(VERIF, "contracts", "lemmas", "*.vt"))):
            name = os.path.basename(f)[:-3]
            for v in extract.variants_of(open(f).read()):
                tag = name + ("" if not v else "." + "_".join(list(v.values())[:2]))
                text, _ = extract.generate(f, v, canary=False)
                inv[tag] = dict(functions=unit_fn_names(text), loops=unit_loop_counts(text), closures=unit_closure_counts(text))
        json.dump(inv, open(INVENTORY_PATH, "w"), indent=0, sort_keys=True)
        print("inventory written:", len(inv), "unit-variants,", sum(len(x["functions"]) for x in inv.values()), "functions")
        sys.exit(0)
    rs = run_units([(os.path.basename(a)[:-3], os.path.relpath(os.path.abspath(a), VERIF)) for a in sys.argv[1:]])
    for r in rs:
        print(r["unit"], r["status"], r["undecided"] or "", "fns=%d" % len(r["functions"]), "canary=%s" % r["canary"],
              "%.1fs" % r.get("wall_s", 0))
        for f in r["failures"]:
            print("   FAIL", f["function"], "|", f["kind"], "|", f["clause"])
        if r["status"] == "undecided":
            print(r.get("stderr", "")[-1500:])
