#!/bin/bash
# usage: engine/benign_round.sh r20 r21 ...   — runs every check against behaviour-preserving patches notes/benign/<r>.patch.diff
# (scratch copy of /repo per check); prints the checks that do not exit 0 and a final count of exit-1 results (must be 0)
cd "$(dirname "$0")/.."
bad=0
for r in "$@"; do
  d=$(mktemp -d /tmp/benign_XXXX); cp notes/benign/$r.patch.diff $d/patch.diff
  python3 engine/selftest.py --patch $d/patch.diff > $d/out.txt 2>&1
  echo "== $r"; grep -v "exit 0" $d/out.txt | cut -c1-220
  n=$(grep -c "exit 1" $d/out.txt); bad=$((bad+n))
  rm -rf $d
done
echo "EXIT1_TOTAL=$bad"
