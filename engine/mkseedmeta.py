#!/usr/bin/env python3
"""mkseedmeta.py <seed-name>: compose /verif/seeded/<seed>/meta.json from the agent's meta and our confirmation log."""
import json, sys, os, glob
name = sys.argv[1]
d = os.path.join(os.path.dirname(os.path.dirname(os.path.abspath(__file__))), "seeded", name)
am = {}
try:
    am = json.load(open(os.path.join(d, "meta.agent.json")))
except Exception as e:
    am = {"note": "agent meta unreadable: %r" % e}
conf = open(os.path.join(d, "confirm.txt")).read().strip().split("\n")[-1] if os.path.exists(os.path.join(d, "confirm.txt")) else ""
meta = dict(seed=name, property=name.split("-")[0],
            origin="independent sub-agent given only the property text and a scratch worktree",
            summary=am.get("summary", ""), files=am.get("files", []),
            needs_to_manifest=am.get("needs_to_manifest", ""),
            demonstration=[os.path.basename(x) for x in glob.glob(os.path.join(d, "demo_*.rs"))],
            confirmed_by_me="engine/confirm_seed.sh in a fresh worktree of /repo HEAD: demo passes on the unmodified tree, lib and doc suites pass with the change, demo fails with the change",
            confirmation_log_tail=conf)
json.dump(meta, open(os.path.join(d, "meta.json"), "w"), indent=1)
print(name, "meta written")
