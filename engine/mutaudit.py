#!/usr/bin/env python3
"""
Contract-strength audit (development tool, not a registered check): small syntactic mutations are
applied to the bodies of the extracted REAL functions inside the generated Verus text of each unit
(first variant), and `verus` is run on every mutant.  A mutant that still verifies ("survivor") is
either an equivalent mutant or shows a contract that is too weak to notice the change.

  mutaudit.py [unit-name ...]        -> prints survivors, writes notes/mutaudit.json
"""
import os, re, sys, json, glob, subprocess, hashlib
from concurrent.futures import ThreadPoolExecutor

sys.path.insert(0, os.path.dirname(os.path.abspath(__file__)))
import extract, vrun

VERIF = extract.VERIF
OUT = os.path.join(VERIF, "build", "mutaudit")


def mutants_of_line(line):
    s = line.rstrip("\n")
    code = re.sub(r"//.*", "", s)
    st = code.strip()
    res = []
    if not st or st.startswith("//"):
        return res
    # delete a plain statement (not a binding, not a block opener/closer)
    if st.endswith(";") and not st.startswith("let ") and not st.startswith("return") and "{" not in st and "}" not in st:
        res.append(("delete-stmt", re.sub(r"\S.*", "/* deleted */", s, count=1)))
    m = re.match(r"^(\s*(?:\}\s*else\s+)?if\s+)(?!let\b)(.*?)(\s*\{\s*)$", code)
    if m:
        res.append(("negate-if", "%s!(%s)%s" % (m.group(1), m.group(2), m.group(3))))
    for a, b in (("<=", "<"), (">=", ">"), ("==", "!="), ("!=", "==")):
        if a in code and "=>" not in code.replace(a, ""):
            res.append(("relop %s->%s" % (a, b), s.replace(a, b, 1)))
    if re.search(r"[^<=!>-]<[^<=]", code) and "::<" not in code and not re.search(r"\w<\w+>", code) and "<" in code and "->" not in code:
        if re.search(r"\s<\s", code):
            res.append(("relop <-><=", re.sub(r"\s<\s", " <= ", s, count=1)))
    if re.search(r"\s>\s", code) and "->" not in code and "=>" not in code:
        res.append(("relop >->>=", re.sub(r"\s>\s", " >= ", s, count=1)))
    if "+= 1" in code:
        res.append(("inc2", s.replace("+= 1", "+= 2", 1)))
    if "-= 1" in code:
        res.append(("dec2", s.replace("-= 1", "-= 2", 1)))
    if re.search(r"\+ 1\b", code):
        res.append(("plus1->plus2", re.sub(r"\+ 1\b", "+ 2", s, count=1)))
    if re.search(r"- 1\b", code):
        res.append(("minus1->minus0", re.sub(r"- 1\b", "- 0", s, count=1)))
    for a, b in (("push_back", "push_front"), ("pop_front", "pop_back"), ("true", "false"), ("false", "true"),
                 ("&&", "||"), ("||", "&&"), ("is_none()", "is_some()"), ("is_some()", "is_none()"),
                 (".complete()", ".error_MUT()"), ("Some(value)", "None")):
        if re.search(r"(?<![\w])" + re.escape(a) + r"(?![\w])" if a[0].isalpha() else re.escape(a), code):
            if b == ".error_MUT()":
                continue
            res.append(("%s->%s" % (a, b), s.replace(a, b, 1)))
    # a terminal call turned into the other terminal / dropped tail call
    m = re.match(r"^(\s*)(.*)\.error\((\w+)\)(;?)\s*$", code)
    if m:
        res.append(("error->complete", "%s%s.complete()%s" % (m.group(1), m.group(2), m.group(4))))
    if not st.endswith(";") and not st.endswith("{") and not st.endswith("}") and not st.endswith(",") and re.search(r"\.\w+\(.*\)$", st) and not st.startswith("let "):
        res.append(("drop-tail-call", re.sub(r"\S.*", "()", s, count=1)))
    m = re.match(r"^(\s*)(.*)\.push\((.*)\);\s*$", code)
    if m:
        res.append(("push->insert0", "%s%s.insert(0, %s);" % (m.group(1), m.group(2), m.group(3))))
    if st.endswith(";") and not st.startswith("let ") and "{" not in st and "}" not in st and "return" not in st:
        res.append(("dup-stmt", s + " " + st))
    return res


def real_fn_ranges(text):
    """line ranges (1-based, body only) of functions that carry a contract and come from /repo"""
    marker_line = text[: text.find("// ===== unit text")].count("\n")
    lines = text.split("\n")
    out = []
    for (s, e, q) in vrun.fn_index(text):
        if s <= marker_line:
            continue
        seg = "\n".join(lines[s - 1:e])
        if "external_body" in "\n".join(lines[max(0, s - 3):s]):
            continue
        if "unimplemented!()" in seg:
            continue
        # body starts at the line that is exactly "{" after the contract
        bs = None
        for k in range(s - 1, e):
            if lines[k].startswith("{"):
                bs = k + 1
                break
        if bs is None:
            continue
        if not re.search(r"\b(ensures|requires)\b", "\n".join(lines[s - 1:bs])):
            continue
        out.append((bs + 1, e, q))
    return out


def run_one(job):
    name, tag, text, ln, kind, newline, q = job
    lines = text.split("\n")
    old = lines[ln - 1]
    lines[ln - 1] = newline
    if newline.endswith("/*SWAP*/"):
        lines[ln] = ""
    h = hashlib.md5((tag + str(ln) + kind).encode()).hexdigest()[:10]
    path = os.path.join(OUT, "%s_%s.rs" % (re.sub(r"\W", "_", tag), h))
    open(path, "w").write("\n".join(lines))
    try:
        p = subprocess.run([vrun.VERUS, path, "--output-json", "--rlimit", "40"], capture_output=True, text=True, timeout=300)
        js = json.loads(p.stdout)
        vr = js.get("verification-results", {})
        if vr.get("encountered-vir-error") or ("error[E" in p.stderr) or ("error:" in p.stderr and "verification results" not in p.stderr and not vr):
            status = "compile-error"
        elif vr.get("success"):
            status = "SURVIVED"
        else:
            status = "killed" if any(s_ in p.stderr for s_ in vrun.SEMANTIC) else "compile-error"
    except Exception as ex:
        status = "tool-error"
    try:
        os.remove(path)
    except OSError:
        pass
    return dict(unit=tag, fn=q, line=ln, kind=kind, old=old.strip(), new=newline.strip(), status=status)


def main():
    os.makedirs(OUT, exist_ok=True)
    want = sys.argv[1:]
    jobs = []
    for f in sorted(glob.glob(os.path.join(VERIF, "contracts", "units", "*.vt"))):
        name = os.path.basename(f)[:-3]
        if want and name not in want:
            continue
        v = extract.variants_of(open(f).read())[0]
        tag = name + ("" if not v else "." + "_".join(list(v.values())[:2]))
        try:
            text, _ = extract.generate(f, v, canary=False)
        except Exception as ex:
            print("skip", name, ex)
            continue
        lines = text.split("\n")
        for (bs, be, q) in real_fn_ranges(text):
            for ln in range(bs, be):
                for kind, newline in mutants_of_line(lines[ln - 1]):
                    if newline != lines[ln - 1]:
                        jobs.append((name, tag, text, ln, kind, newline, q))
                # swap two adjacent plain statements
                a_, b_ = lines[ln - 1], lines[ln] if ln < be else ""
                def plain(x):
                    x = re.sub(r"//.*", "", x).strip()
                    return x.endswith(";") and not x.startswith("let ") and "{" not in x and "}" not in x and "return" not in x
                if plain(a_) and plain(b_) and a_.strip() != b_.strip():
                    jobs.append((name, tag, text, ln, "swap-adjacent", b_ + "\n" + a_ + " /*SWAP*/", q))
    print("mutants:", len(jobs))
    with ThreadPoolExecutor(max_workers=14) as ex:
        res = list(ex.map(run_one, jobs))
    tally = {}
    for r in res:
        tally[r["status"]] = tally.get(r["status"], 0) + 1
    print(tally)
    surv = [r for r in res if r["status"] == "SURVIVED"]
    for r in surv:
        print("SURVIVED %-28s %-40s L%d %-16s | %s  =>  %s" % (r["unit"], r["fn"], r["line"], r["kind"], r["old"][:70], r["new"][:70]))
    os.makedirs(os.path.join(VERIF, "notes"), exist_ok=True)
    json.dump(dict(tally=tally, survivors=surv), open(os.path.join(VERIF, "notes", "mutaudit.json"), "w"), indent=1)


if __name__ == "__main__":
    main()
