#!/bin/bash
# usage: SEEDDIR=/tmp/seedN engine/process_seed_round.sh C01 C02 ...   (confirms each agent worktree $SEEDDIR/<P>, stores the seed, runs its own check)
cd /verif
for P in "$@"; do
  [ -f ${SEEDDIR:-/tmp/seeds}/$P/patch.diff ] || { echo "$P: no patch yet"; continue; }
  last=$(ls seeded | grep "^$P-" | sed "s/$P-//" | sort | tail -1)
  if [ -z "$last" ]; then next=a; else next=$(echo "$last" | tr 'a-y' 'b-z'); fi
  name=$P-$next
  r=$(bash engine/confirm_seed.sh ${SEEDDIR:-/tmp/seeds}/$P $name 2>&1 | tail -1)
  if ! echo "$r" | grep -q "CONFIRMED=1"; then
     r=$(bash engine/confirm_seed.sh ${SEEDDIR:-/tmp/seeds}/$P $name 2>&1 | tail -1)
  fi
  if echo "$r" | grep -q "CONFIRMED=1"; then
     python3 engine/mkseedmeta.py $name >/dev/null
     echo "$name CONFIRMED: $(python3 engine/selftest.py --patch seeded/$name/patch.diff $P | cut -c1-330)"
  else
     echo "$name NOT CONFIRMED: $r"
  fi
done
