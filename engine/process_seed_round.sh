#!/bin/bash
cd /verif
for P in "$@"; do
  [ -f /tmp/seed9/$P/patch.diff ] || { echo "$P: no patch yet"; continue; }
  last=$(ls seeded | grep "^$P-" | sed "s/$P-//" | sort | tail -1)
  next=$(echo "$last" | tr 'a-y' 'b-z')
  name=$P-$next
  r=$(bash engine/confirm_seed.sh /tmp/seed9/$P $name 2>&1 | tail -1)
  if ! echo "$r" | grep -q "CONFIRMED=1"; then
     r=$(bash engine/confirm_seed.sh /tmp/seed9/$P $name 2>&1 | tail -1)
  fi
  if echo "$r" | grep -q "CONFIRMED=1"; then
     python3 engine/mkseedmeta.py $name >/dev/null
     echo "$name CONFIRMED: $(python3 engine/selftest.py --patch seeded/$name/patch.diff $P | cut -c1-330)"
  else
     echo "$name NOT CONFIRMED: $r"
  fi
done
