#!/usr/bin/env python3
"""
Engine K: Kani on the REAL crate (DESIGN.md §2.3).

Harness files live in /verif/contracts/kani/*.rs.  Header lines:
    //@ props: C03,C16            properties served
    //@ target: src/x/y.rs        the source file the module is appended to (child module: sees
                                  private items of that file)
Every harness fn is preceded by `// [Cxx,...] what it states`; a harness whose completeness depends
on an unwinding bound over a collection / script carries `//@ bounded: <what, bound>` and is never
counted as proved.

On every run a scratch copy of /repo's working tree is made outside /repo and /verif, the harness
modules are appended as `#[cfg(kani)] mod ..` (nothing is written to /repo), `cargo kani` runs the
selected harnesses and the scratch copy is removed.  Only the Kani target dir (compiled
dependencies) is kept under /verif/build/kani-target to make later runs faster.
"""
import os, re, sys, json, time, shutil, subprocess, glob, tempfile

VERIF = os.path.dirname(os.path.dirname(os.path.abspath(__file__)))
REPO = os.environ.get("RXRUST_REPO", "/repo")
KDIR = os.path.join(VERIF, "contracts", "kani")
TARGET = os.path.join(VERIF, "build", "kani-target")
HARNESS_TIMEOUT = os.environ.get("VERIF_KANI_TIMEOUT", "600")
THOROUGH_TIMEOUT = os.environ.get("VERIF_KANI_TIMEOUT_THOROUGH", "1200")


def harness_files():
    out = []
    for f in sorted(glob.glob(os.path.join(KDIR, "*.rs"))):
        if os.path.basename(f) == "probe.rs":
            continue
        txt = open(f).read()
        pm = re.search(r"^//@ props:\s*(.*)$", txt, re.M)
        tm = re.search(r"^//@ target:\s*(\S+)", txt, re.M)
        if not pm or not tm:
            continue
        harnesses = []
        lines = txt.split("\n")
        for i, l in enumerate(lines):
            m = re.match(r"\s*fn\s+(\w+)\s*\(", l)
            if not m:
                continue
            # walk up over attributes/comments
            j = i - 1
            is_proof = False
            tags, bounded, doc = set(), None, []
            while j >= 0 and (lines[j].strip().startswith("#[") or lines[j].strip().startswith("//")):
                s = lines[j].strip()
                if s.startswith("#[kani::proof"):
                    is_proof = True
                t = re.search(r"//\s*\[((?:C\d+\s*,?\s*)+)\]\s*(.*)", s)
                if t:
                    tags.update(x.strip() for x in t.group(1).split(",") if x.strip())
                    doc.insert(0, t.group(2))
                elif s.startswith("//@ bounded:"):
                    bounded = s[len("//@ bounded:"):].strip()
                elif s.startswith("//") and not s.startswith("//@"):
                    doc.insert(0, s[2:].strip())
                j -= 1
            if is_proof:
                harnesses.append(dict(name=m.group(1), tags=tags, bounded=bounded, doc=" ".join(doc)))
        tn = re.search(r"^//@ thorough-note:\s*(.*)$", txt, re.M)
        out.append(dict(file=f, name=os.path.basename(f)[:-3], target=tm.group(1), thorough_note=tn.group(1).strip() if tn else None,
                        props=[x.strip() for x in pm.group(1).split(",") if x.strip()], harnesses=harnesses))
    return out


def make_scratch(files, tier="quick"):
    scratch = tempfile.mkdtemp(prefix="verif_kani_", dir="/tmp")
    dst = os.path.join(scratch, "repo")
    subprocess.run(["rsync", "-a", "--exclude", "target", "--exclude", ".git", REPO + "/", dst + "/"], check=True)
    shutil.copy(os.path.join(KDIR, "probe.rs"), os.path.join(dst, "src", "verif_probe.rs"))
    with open(os.path.join(dst, "src", "lib.rs"), "a") as fh:
        fh.write("\n#[cfg(kani)]\npub mod verif_probe;\n")
    for hf in files:
        tgt = os.path.join(dst, hf["target"])
        if not os.path.exists(tgt):
            return scratch, dst, "target file %s missing" % hf["target"]
        hdir = os.path.join(dst, "verif_harness")
        os.makedirs(hdir, exist_ok=True)
        hcopy = os.path.join(hdir, hf["name"] + ".rs")
        shutil.copy(hf["file"], hcopy)     # playback tests are written next to the COPY, never into /verif
        if tier == "thorough":
            # deeper bounds for the thorough tier: declared textual substitutions in the harness header
            # (`//@ thorough-subst: OLD ==> NEW`), applied to the scratch copy only
            src_ = open(hcopy).read()
            for old_, new_ in re.findall(r"^//@ thorough-subst:\s*(.*?)\s*==>\s*(.*?)\s*$", src_, re.M):
                src_ = "\n".join(l if l.startswith("//@") else l.replace(old_, new_) for l in src_.split("\n"))
            open(hcopy, "w").write(src_)
        with open(tgt, "a") as fh:
            fh.write("\n#[cfg(kani)]\nmod verif_kani_%s {\n  #![allow(unused)]\n  use super::*;\n  include!(\"%s\");\n}\n" % (hf["name"], hcopy))
    return scratch, dst, None


def run(pid, tier="quick", exclude=()):
    """returns (results, note).  results: list of dict(harness, file, tags, status, bounded, time_s,
    failed_checks, output)"""
    files = [hf for hf in harness_files() if pid in hf["props"] and hf["name"] not in exclude]
    wanted = []
    for hf in files:
        for h in hf["harnesses"]:
            if not h["tags"] or pid in h["tags"]:
                wanted.append((hf, h))
    if not wanted:
        return [], None
    scratch, dst, err = make_scratch(files, tier)
    results = []
    try:
        if err:
            return [dict(harness=h["name"], file=hf["name"], tags=sorted(h["tags"]), status="undecided", bounded=h["bounded"],
                         time_s=0, failed_checks=[], output=err, doc=h["doc"]) for hf, h in wanted], err
        env = dict(os.environ)
        env["CARGO_NET_OFFLINE"] = "true"
        env["RUSTFLAGS"] = (env.get("RUSTFLAGS", "") + " --cfg rxrust_verif").strip()   # hooks on
        env["CARGO_TARGET_DIR"] = TARGET
        os.makedirs(TARGET, exist_ok=True)
        jpath = os.path.join(scratch, "kani.json")
        cmd = ["cargo", "kani", "-Z", "unstable-options", "-Z", "stubbing"] + os.environ.get("VERIF_KANI_EXTRA", "").split() + ["--output-format=terse", "-j", os.environ.get("VERIF_KANI_JOBS", "8"),
               "--harness-timeout", (THOROUGH_TIMEOUT if tier == "thorough" else HARNESS_TIMEOUT) + "s", "--export-json", jpath]
        for hf, h in wanted:
            cmd += ["--harness", "verif_kani_%s::%s" % (hf["name"], h["name"])]
        t0 = time.time()
        try:
            p = subprocess.run(cmd, cwd=dst, env=env, capture_output=True, text=True, timeout=3000 if tier != "thorough" else 9000)
            out = p.stdout + "\n" + p.stderr
        except subprocess.TimeoutExpired as e:
            out = "cargo kani timed out (3000 s)"
        wall = time.time() - t0
        js = None
        if os.path.exists(jpath):
            try:
                js = json.load(open(jpath))
            except Exception:
                js = None
        # per-harness blocks of the terse output
        blocks = {}
        cur = {}
        for line in out.split("\n"):
            m = re.match(r"Thread (\d+): Checking harness (\S+?)\.\.\.", line)
            if m:
                cur[m.group(1)] = m.group(2)
                blocks.setdefault(m.group(2), [])
                continue
            m = re.match(r"Thread (\d+): ?(.*)", line)
            if m and m.group(1) in cur:
                last = m.group(1)
                blocks[cur[last]].append(m.group(2))
                cur["_last"] = cur[last]
                continue
            if "_last" in cur:
                blocks[cur["_last"]].append(line)
        compile_failed = ("error: could not compile" in out) or ("Failed to execute cargo" in out)
        if compile_failed and not exclude:
            # a harness file that no longer compiles against the (changed) crate must not take the
            # other files' harnesses with it: drop the files the compiler points at and run the rest
            errblocks = [b for b in re.split(r"\n(?=(?:error|warning)\b)", out) if b.startswith("error")]
            bad = set(re.findall(r"verif_harness/(\w+)\.rs", "\n".join(errblocks))) & {hf["name"] for hf in files}
            if bad and len(bad) < len(files):
                shutil.rmtree(scratch, ignore_errors=True)
                rest, note2 = run(pid, tier, exclude=tuple(sorted(bad)))
                reason = "harness file does not compile against this tree: " + "; ".join(re.findall(r"^error(?:\[E\d+\])?: (.*)$", out, re.M)[:3])
                for hf, h in wanted:
                    if hf["name"] in bad:
                        rest.append(dict(harness=h["name"], file=hf["name"], tags=sorted(h["tags"]), status="undecided",
                                         bounded=h["bounded"], time_s=0.0, failed_checks=[], output=out[-3000:], reason=reason, doc=h["doc"]))
                return rest, (note2 or "") + " (harness files %s excluded: do not compile)" % ",".join(sorted(bad))
        for hf, h in wanted:
            full = None
            for k in blocks:
                if k.endswith("verif_kani_%s::%s" % (hf["name"], h["name"])):
                    full = k
            txt = "\n".join(blocks.get(full, [])) if full else ""
            status = "undecided"
            failed = re.findall(r"Failed Checks: (.*)", txt)
            tm_ = re.search(r"Verification Time: ([\d.]+)s", txt)
            reason = ""
            if compile_failed:
                reason = "harness / crate does not compile: " + "; ".join(re.findall(r"^error(?:\[E\d+\])?: (.*)$", out, re.M)[:3])
            elif "VERIFICATION:- SUCCESSFUL" in txt:
                status = "ok"
            elif "VERIFICATION:- FAILED" in txt:
                if "timed out" in txt or "CBMC failed" in txt and not failed:
                    reason = "CBMC timed out / failed without a verdict"
                elif any("unwinding assertion" in f for f in failed) and all(("unwinding assertion" in f) for f in failed):
                    reason = "unwinding bound too small (no verdict)"
                elif any(("not currently supported by Kani" in f) or ("unsupported_construct" in f) for f in failed) or \
                        "not currently supported by Kani" in txt:
                    # the (changed) code reaches something Kani cannot model: no verdict, never an alarm
                    reason = "code reaches a construct Kani does not support: " + "; ".join(failed)[:200]
                elif failed:
                    status = "violated"
                else:
                    reason = "failed without listed checks"
            else:
                reason = "no result for harness (%s)" % ("kani output missing" if not txt else "unparsed")
            results.append(dict(harness=h["name"], file=hf["name"], tags=sorted(h["tags"]), status=status,
                                bounded=(h["bounded"] + (" [thorough tier: %s]" % hf.get("thorough_note")) if (h["bounded"] and tier == "thorough" and hf.get("thorough_note")) else h["bounded"]), time_s=float(tm_.group(1)) if tm_ else 0.0,
                                failed_checks=failed, output=(txt or out)[-4000:], reason=reason, doc=h["doc"]))
        # counterexamples for violated harnesses: concrete playback
        for r in results:
            if r["status"] != "violated":
                continue
            cmd2 = ["cargo", "kani", "-Z", "concrete-playback", "--concrete-playback=print", "-Z", "stubbing",
                    "--harness", "verif_kani_%s::%s" % (r["file"], r["harness"])]
            r["playback"] = None
            r["native_replay"] = "not run"
            try:
                p2 = subprocess.run(cmd2, cwd=dst, env=env, capture_output=True, text=True, timeout=900)
                m = re.search(r"```\s*\n(.*?)```", p2.stdout, re.S)
                r["playback"] = m.group(1) if m else None
                if r["playback"]:
                    # replay the counterexample NATIVELY against the real code: the generated unit
                    # test re-runs the harness body with the concrete values
                    hcopy = os.path.join(dst, "verif_harness", r["file"] + ".rs")
                    with open(hcopy, "a") as fh:
                        # (the generated doc comment can wrap a long assertion text over two lines,
                        # which does not compile: keep the test function only)
                        pb = r["playback"]
                        k = pb.find("#[test]")
                        fh.write("\n" + (pb[k:] if k >= 0 else pb) + "\n")
                    tn = re.search(r"fn\s+(kani_concrete_playback_\w+)", r["playback"])
                    if tn:
                        p3 = subprocess.run(["cargo", "kani", "playback", "-Z", "concrete-playback", "--", tn.group(1)],
                                            cwd=dst, env=env, capture_output=True, text=True, timeout=900)
                        o3 = p3.stdout + p3.stderr
                        if re.search(r"test result: FAILED|panicked at", o3):
                            r["native_replay"] = "FAILED natively (counterexample confirmed on the real code)"
                        elif "test result: ok" in o3:
                            r["native_replay"] = "passed natively (counterexample NOT confirmed)"
                        else:
                            r["native_replay"] = "could not run: " + o3[-300:]
                        r["native_output"] = o3[-2500:]
            except subprocess.TimeoutExpired:
                pass
        note = "cargo kani wall %.1fs" % wall
        return results, note
    finally:
        shutil.rmtree(scratch, ignore_errors=True)


if __name__ == "__main__":
    rs, note = run(sys.argv[1], sys.argv[2] if len(sys.argv) > 2 else "quick")
    print(note)
    for r in rs:
        print(r["harness"], r["status"], r["bounded"] or "", "%.1fs" % r["time_s"], r.get("reason", ""), r["failed_checks"])
        if r.get("playback"):
            print(r["playback"])
