#!/usr/bin/env python3
"""Regenerates /verif/MANIFEST.json from the table below (kept next to the code so that the
manifest never drifts from what check.py actually runs)."""
import json, os, subprocess

VERIF = os.path.dirname(os.path.dirname(os.path.abspath(__file__)))

COMMON_NOTE = ("Trusted: Verus+Z3; the contract vocabulary (prelude.rs) incl. recorder/`delivered` witnesses that rest on "
               "linearity and parametricity of generic by-value observers; extraction rules R1-R10 (syntactic, counted in "
               "evidence); one-handle stand-in for MutRc/MutArc (no aliasing between clones, no borrow/lock acquisition: "
               "re-entrancy and thread interleavings are NOT covered); closures total and deterministic; Clone faithful. ")

CLAIMS = {
    "C01": ("Closed-slot contracts (slot None => silent, terminal => slot None, at most one terminal per call) proved by Verus "
            "on the real text of every shared observer handle and early-terminating operator under contract; by-value observers "
            "rely on the typing argument (terminals consume self).",
            "§4 C01", "Subjects and merge_all are not yet under contract in this check."),
    "C02": ("Verus: Subscriber::unsubscribe empties the shared slot (then the C01 closed-slot clause gives silence); "
            "ZipSubscription unsubscribes both parts.", "§4 C02",
            "Scheduler-registered task handles, MultiSubscription and racing emitter threads are not covered by this check."),
    "C03": ("Every single-input operator's observer methods and every basic source proved (Verus, unbounded) equal to a step "
            "of its documented list semantics on a recording downstream, including 'no aggregate with an error'; derived "
            "operators proved to be the documented compositions.", "§4 C03",
            "take_last::complete (drain loop), collect::next (Extend), from_iter/repeat, create, defer are not in the Verus units."),
    "C04": ("Step contracts for merge, zip, combine_latest (both macro instantiations), with_latest_from, sample, take_until "
            "proved on the real text for arbitrary pre-states (unbounded queues); every interleaving is a sequence of such steps.",
            "§4 C04", "skip_until and buffer(notifier) not yet under contract; aliasing of the two handles is assumed."),
    "C05": ("Verus: InnerObserver/OutsideObserver of merge_all (both forms) proved against the counter/queue contract: running "
            "inners <= limit, FIFO of waiting inners, an inner completion starts the OLDEST waiting one or frees its slot, "
            "downstream completes exactly when the outer stream is done and nothing runs or waits, first error closes the slot.",
            "§4 C05", "The 3-line body of the deferred-subscription closure is not verified (rule R11); 'without panicking or "
            "blocking' (dynamic borrow/lock re-entrancy) is outside the stand-in (one such defect was found by reading and fixed); "
            "flatten/flat_map/concat_* are thin compositions over merge_all (builders not yet under contract)."),
    "C06": ("Verus, unbounded in the number of subscribers: Subject/SubjectThreads next/error/complete/load/actual_subscribe/"
            "unsubscribe/is_closed/is_empty/len/retain proved on the real macro text (iterator adapters desugared by rule R9, "
            "SmallVec assumed to be a Vec) against 'exactly once, in list order, to everybody registered before the emission; "
            "terminal once to every open unfinished subscriber; nothing after a terminal'.", "§4 C06",
            "Thread interleavings and re-entrant calls from callbacks (borrow/lock acquisition) are outside the stand-in; "
            "retain's completeness clause and the MutRef* variants (same macro text) are not separately proved."),
    "C07": ("Verus with scheduler stand-ins: DelayObserver/ObserveOnObserver (both forms) schedule exactly one one-shot task per "
            "notification with the configured delay (None for observe_on) carrying (slot handle, payload), deliver nothing "
            "synchronously, register the handle; delay forwards an error at once.", "§4 C07",
            "Task run order (the scheduler) is a stated assumption; the _at builders and subscribe_on/delay_subscription are not in this check yet."),
    "C08": ("Verus: the task bodies interval_task, timer_task, item_task, result_task emit exactly what the source promises "
            "when the scheduler runs them.", "§4 C08",
            "RepeatTask::poll / FutureTask::poll / stream driver polls and timer accuracy are not covered by this check yet."),
    "C09": ("Verus: buffer contracts (never empty, flush at count, order kept, concatenation on completion) and sample's "
            "take-once cell.", "§4 C09", "debounce/throttle/timed buffers are not yet under contract."),
    "C19": ("Verus: TaskHandle::{unsubscribe,is_closed} for plain and subscribing tasks (cancellation clears keep_running and "
            "drops/unsubscribes the stored result; closed only when the task has produced its value), value_handle.", "§4 C19",
            "Remote::poll, OnceTask/RepeatTask/FutureTask::poll and the schedule() async block are not covered by this check yet (trusted)."),
    "C11": ("Verus: ConnectableObservable::actual_subscribe only joins the inner subject (no bound on the source type: typing "
            "argument), connect subscribes the source with the subject.", "§4 C11",
            "share()/RefCount and the subject itself are not yet under contract in this check."),
    "C12": ("Verus: BehaviorSubject methods over an abstract inner-subject contract: value cell written before broadcast, "
            "subscriber gets the cell first, peek returns the cell, next_by(f) == next(f(peek())).", "§4 C12",
            "Single-threaded clause only; the concurrent-producers clause is outside the family."),
    "C13": ("Verus: builders return the plain operator value (source + parameters), actual_subscribe of every operator under "
            "contract creates fresh initial state and subscribes the source with it, of_fn/start call their closure once on "
            "subscription.", "§4 C13", "defer/from_iter/create handled elsewhere; independence of clones is an ownership argument."),
    "C14": ("Verus with an assumed channel/atomic contract: what to_future / to_stream / complete_status observers put on the "
            "channel or flag for every source history.", "§4 C14",
            "The polling side (ObservableFuture::poll, poll_next, StatusFuture::poll) is not covered by this check."),
    "C15": ("Verus: FinalizerObserver/FinalizerSubscription: next leaves the callback cell alone; error/complete/unsubscribe "
            "call a still-present callback; FnOnce linearity gives at-most-once.", "§4 C15",
            "The race between a terminating and an unsubscribing thread is outside the family."),
    "C16": ("Verus: is_finished() of every observer under contract returns the property's definition of finished (slot closed "
            "or downstream finished).", "§4 C16", "Producers (interval_task, RepeatTask, from_iter) not yet in this check."),
    "C17": ("Verus: is_closed() => dead for Subscriber, ZipSubscription, (), FinalizerSubscription, BehaviorSubject; "
            "unsubscribe makes the subscriber dead.", "§4 C17", "MultiSubscription, TaskHandle, RefCount not yet covered."),
    "C18": ("Every unit that exists in a local and a thread-safe form is extracted in BOTH forms and proved against ONE "
            "functional contract (two refinements of one deterministic transducer are trace-equal on single-threaded histories).",
            "§4 C18", "Units not under contract in both forms are listed in evidence as not covered."),
}

NOT_APPLICABLE = {
    "C20": "group_by's observer is HashMap::entry().or_insert_with(closure borrowing a field) + drain() loops over per-group "
           "Subjects: outside Verus (closure capturing self, entry API, drain iterator), and the bounded Kani stand-in "
           "(2 items, u8 keys; notes/not-feasible/kani_group_by.rs.txt) did not finish within 300 s of CBMC; no contract within reach",
    "C10": "all-interleavings safety/liveness of Arc<Mutex> code: Kani has no threads and Verus would need its permission-token "
           "cells, i.e. a rewrite of MutArc into a model; no contract within reach (DESIGN.md §5)",
}
PENDING = "check not built yet (framework under construction, see DESIGN.md §9)"


def main():
    props = [json.loads(l) for l in open(os.path.join(VERIF, "properties.jsonl"))]
    checks = []
    na = []
    for p in props:
        pid = p["id"]
        if pid in CLAIMS:
            text, ref, gap = CLAIMS[pid]
            checks.append(dict(
                property_id=pid,
                quick_cmd="./check %s quick" % pid,
                thorough_cmd="./check %s thorough" % pid,
                evidence_file="/verif/evidence/%s.json" % pid,
                replay_cmd_template="cat {path}",
                engine="verus-extract",
                level_claimed=dict(category="proof", text=text, design_ref="DESIGN.md " + ref),
                level_note=COMMON_NOTE + "Not covered: " + gap,
                technique="contract-based deductive verification (Verus on mechanically extracted real functions)",
            ))
        else:
            na.append(dict(property_id=pid, reason=NOT_APPLICABLE.get(pid, PENDING)))
    hooks_commits = subprocess.check_output(["git", "-C", "/repo", "log", "--format=%h", "--grep=^verif hook"]).decode().split()
    m = dict(
        version=1,
        setup_cmd="python3 -c \"import json,sys; print('verif setup ok')\" && verus --version >/dev/null",
        hooks=dict(guard="rxrust_verif", enable="RUSTFLAGS='--cfg rxrust_verif' (set by engine/krun.py for every Engine-K run; one named yield point in StatusFuture::poll)",
                   baseline_off_cmd="cd /repo && cargo test --workspace --no-fail-fast --offline",
                   source_commits=hooks_commits, add_only=True),
        engines=[dict(name="verus-extract", path="engine/", serves_properties=sorted(CLAIMS),
                      kind_free_text="extract.py pulls the real function text out of /repo on every run, splices the contracts of "
                                     "contracts/units/*.vt, vrun.py runs `verus` per unit (+ vacuity canary), check.py decides per property")],
        checks=checks,
        notes="See DESIGN.md. known_findings.json lists repaired (fix:) and recorded defects.",
        not_applicable=na,
    )
    json.dump(m, open(os.path.join(VERIF, "MANIFEST.json"), "w"), indent=1)
    print("claimed:", [c["property_id"] for c in checks])
    print("not claimed:", [n["property_id"] for n in na])


if __name__ == "__main__":
    main()
