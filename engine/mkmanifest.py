#!/usr/bin/env python3
"""Regenerates /verif/MANIFEST.json from the table below (kept next to the code so that the
manifest never drifts from what check.py actually runs)."""
import json, os, subprocess

VERIF = os.path.dirname(os.path.dirname(os.path.abspath(__file__)))

COMMON_NOTE = ("Trusted: Verus+Z3; the contract vocabulary (prelude.rs) incl. recorder/`delivered` witnesses that rest on "
               "linearity and parametricity of generic by-value observers; extraction rules R1-R18 (syntactic, counted in "
               "evidence); one-handle stand-in for MutRc/MutArc with a ghost cell identity (simultaneous access through two handles "
               "and the dynamic borrow/lock acquisition are not modelled: thread interleavings are NOT covered, re-entrancy only "
               "through the re-entry-discipline assertions, the borrow / free probes (lock scope decided by the borrow checker on the stand-ins, guard scopes of `if let` scrutinees modelled by R13) and the Kani lock-scope obligations); closures total and "
               "deterministic; Clone faithful. ")

CLAIMS = {
    "C01": ("Closed-slot contracts (slot None => silent and stays None; terminal => slot None; at most one terminal per call) "
            "proved by Verus on the real text of every shared observer handle: slot cells, subscribers, Subject/SubjectThreads "
            "(a terminated subject stays terminated), merge/zip/combine_latest/merge_all state, skip_until, buffer notifier, "
            "delay/debounce/throttle; early terminators take/take_while/contains; lemmas closed_silent and "
            "merge_one_terminal_last lift the per-call clauses to every history.  By-value observers rely on the typing "
            "argument (terminals consume self).", "§4 C01",
            "re-entrant calls from inside a callback; thread interleavings; operators not under contract (DESIGN §3)."),
    "C02": ("Verus: unsubscribe of Subscriber, ZipSubscription, MultiSubscription (every part unsubscribed, late append torn "
            "down), TaskHandle (keep_running cleared, produced subscription unsubscribed), FinalizerSubscription; scheduler "
            "operators register every scheduled handle and the composite / handler cell they register in IS (same cell identity) "
            "part of the subscription returned by actual_subscribe (delay, observe_on, debounce, timed buffers, interval, timer, "
            "from_future, subscribe_on, delay_subscription, merge_all); SubscriptionGuard::drop.  Kani lock-scope obligations "
            "(sequential): Remote::poll polls a task body only while it holds the handle lock and never starts a cancelled "
            "one; SubscriberThreads delivers under the cell lock.  Known finding: throttle.", "§4 C02, §6",
            "the racing emitter thread as such (lock-level interleavings) — only the sequential lock-scope obligations are "
            "decided; the schedule() async block is decided under rule R12 (one async block read sequentially)."),
    "C03": ("Every single-input operator's observer methods and every basic source proved (Verus, unbounded) equal to one "
            "step of its documented list semantics on a recording downstream, incl. 'no aggregate with an error'; builders "
            "proved to be the documented compositions; lemma take_items.  Bounded (Kani, <= 3 items then any terminal): "
            "from_iter/repeat, all, ignore_elements, count/sum/min/max/average, element_at/first_or/last_or, reduce (thorough "
            "tier: 6 items).", "§4 C03",
            "collect::next (Extend) is trusted; "
            "the Kani units are bounded and listed under bounded_checks, not counted as proved."),
    "C04": ("Verus step contracts for merge, zip, combine_latest (both macro instantiations), with_latest_from, sample, "
            "take_until, skip_until, buffer(notifier) for arbitrary pre-states (unbounded queues); lemma "
            "zip_pairs_ith_items proves the i-th pairing for EVERY interleaving, merge_one_terminal_last the terminal rule; "
            "actual_subscribe of all eight operators: fresh state, both inputs observe ONE state (same ghost cell identity); frame "
            "obligation: completion of with_latest_from's secondary input leaves the latest value alone.", "§4 C04",
            "interleaving lemmas exist for zip and merge only."),
    "C05": ("Verus: InnerObserver/OutsideObserver of merge_all (both forms) proved against the counter/queue contract: running "
            "inners <= limit, FIFO of waiting inners, an inner completion starts the OLDEST waiting one or frees its slot, "
            "downstream completes exactly when the outer stream is done and nothing runs or waits, first error closes the slot; "
            "re-entry discipline: when a (deferred) inner subscription is started the shared counters already count it; "
            "MergeAllOp::actual_subscribe creates fresh counters and registers inner subscriptions in the returned composite; "
            "Kani: the ten higher-order builders use the documented limit.", "§4 C05",
            "the 3-line body of the deferred-subscription closure is not verified (rule R11); 'without panicking or blocking' "
            "(dynamic borrow/lock re-entrancy) is outside the stand-in (one such defect was found by reading and fixed)."),
    "C06": ("Verus, unbounded in the number of subscribers: Subject/SubjectThreads next/error/complete/load/actual_subscribe/"
            "unsubscribe/is_closed/is_empty/len/retain proved on the real macro text (iterator adapters desugared by rule R9, "
            "SmallVec assumed to be a Vec) against 'exactly once, in list order, to everybody registered before the emission; "
            "terminal once to every open unfinished subscriber; nothing after a terminal'; the real subscribers discharge the "
            "Publisher contract; the closure subscriber (subscribe_item).  Kani with one subscriber: size bookkeeping incl. a "
            "subscriber still waiting in the chamber, and the lock-scope obligation 'a callback runs while the live list is "
            "locked' (SubjectThreads).", "§4 C06",
            "thread interleavings are outside the family (the lock-scope obligation is sequential; on changed code that "
            "moves the list in and out CBMC does not finish: undecided); "
            "retain's completeness clause and the MutRef* variants (same macro text) are not separately proved."),
    "C07": ("Verus with scheduler stand-ins: Delay/ObserveOn observers (both forms) schedule exactly one one-shot task per "
            "notification with the configured delay (None for observe_on) carrying (slot handle, payload), deliver nothing "
            "synchronously, register the handle; delay forwards an error at once; delay_subscription / subscribe_on are one "
            "task on (source, observer); the _at builders store the time remaining until the instant; Scheduler::schedule awaits "
            "a timer of exactly the requested delay before the task (rule R12: the async block read sequentially); the task "
            "bodies of delay/observe_on deliver exactly their notification to the slot.  Kani (API level, recording "
            "scheduler): delay_subscription / subscribe_on are one task with the configured delay.", "§4 C07",
            "'whatever order the scheduler runs its ready tasks in' is NOT provable (nothing re-sequences the tasks): order "
            "preservation assumes a FIFO scheduler (DESIGN §6); Instant/Duration are an assumed contract."),
    "C08": ("Verus: the task bodies interval_task, timer_task, item_task, result_task; interval/timer actual_subscribe "
            "schedule one repeating / one-shot task with the right period, delay and arguments; interval_at/timer_at compute "
            "the remaining time; from_future / from_future_result actual_subscribe (one undelayed task that hands the future's "
            "value to item_task / result_task); the drivers StreamObserverFuture::poll / TryStreamObserverFuture::poll (unbounded: every item the "
            "stream yields during a poll is relayed in order, Pending only when the stream itself was Pending (waker registered), done exactly at "
            "the stream's end / first Err with the matching terminal; termination of the loop not claimed).  Kani: timer counts its delay from subscription however late it is subscribed, timer_at never asks for less than the time remaining until its instant (ns resolution) "
            "(virtual clock, recording scheduler; loop-free); (bounded:) RepeatTask::poll on a virtual clock (consecutive sequence numbers, one fresh "
            "timer per accepted tick, never runs on a pending timer, retires when the task declines), FutureTask::poll, "
            "from_stream / from_stream_result drivers over scripted streams.", "§4 C08",
            "timer accuracy (futures_time::sleep) and executor behaviour are assumed; poll loops are bounded (3 ticks / 3 steps)."),
    "C09": ("Verus: buffer contracts (never empty, flush at count, order kept, concatenation on completion), sample's "
            "take-once cell, debounce (pending item replaced, previous task cancelled, one task per item with the window as "
            "delay, flush on completion), throttle (window open iff handle not closed; leading/trailing/all edges; no item "
            "twice), their task functions take the trailing cell, timed flush tasks retire when finished; actual_subscribe of the "
            "timed buffers: exactly one repeating flush task on the buffer the source fills.", "§4 C09",
            "the timed behaviour rests on the assumed scheduler semantics (a task fires at schedule time + delay unless cancelled)."),
    "C11": ("Verus: ConnectableObservable::actual_subscribe only joins the inner subject (no bound on the source type: typing "
            "argument), connect subscribes the source with the subject; ShareOp::actual_subscribe (both forms): the first "
            "subscription joins, swaps Connectable->Connected and connects exactly then, later ones only join; "
            "RefCountSubscription tears the subject down only when it reports empty; Subject::is_empty/len count live "
            "subscribers (Kani, one subscriber: also one that still waits in the chamber).  Known finding: the connection's own subscription is dropped.", "§4 C11, §6",
            "the subject is an abstract stand-in inside the share unit (its contract is proved in the subject unit)."),
    "C12": ("Verus: BehaviorSubject methods over an abstract inner-subject contract: value cell written before broadcast, "
            "subscriber gets the cell first, peek returns the cell, next_by(f) == next(f(peek())).", "§4 C12",
            "single-threaded clause only; the concurrent-producers clause is outside the family."),
    "C13": ("Verus: builders return the plain operator value (source + parameters); actual_subscribe of every operator under "
            "contract (single-input, two-input, buffers, merge_all, scheduler operators, create, finalize, collect, distinct, "
            "on_complete/on_error) creates fresh initial state from the operator's fields only and subscribes the source "
            "with it; of_fn/start call their closure once on subscription; Kani: defer calls its supplier exactly once, on "
            "subscription; API-level clone independence (bounded, 3 items): a cloned pipeline subscribed twice gives the same "
            "output / runs its finalizer / polls its future once per subscription (take, skip, take_while, scan, reduce, last, "
            "distinct_until_changed, default_if_empty, finalize, from_future); from_iter runs the user's into_iter() on subscription, once "
            "per clone; delay_subscription counts its delay from the subscription of each clone (virtual clock).  Structural: the "
            "ownership condition (no `...Op` struct under contract holds a shared mutable cell).", "§4 C13",
            "independence of clones rests on that ownership condition plus the per-operator actual_subscribe contracts; "
            "DistinctKeyOp::actual_subscribe (Verus ICE)."),
    "C14": ("Verus with an assumed channel/atomic contract: what the to_future / to_stream / complete_status observers put on "
            "the channel or flag for every source history (store before wake); CompleteStatus::{is_closed,is_completed,error_occur}; the "
            "consuming side ObservableStream::poll_next / ObservableFuture::poll over an assumed receiver contract (no Pending of its own: a waker "
            "is registered for every Pending; messages handed on unchanged).  "
            "Kani on the REAL futures channel / "
            "AtomicWaker: to_future resolves to the documented outcome, to_stream yields every item and the error and then "
            "ends (bounded: 2 items), StatusFuture::poll never returns Pending with the flag set and no wake-up delivered "
            "(producer run at the hooked yield point).", "§4 C14",
            "the all-interleavings claim is outside the family: only the one protocol obligation at the hooked yield point is decided."),
    "C15": ("Verus: FinalizerObserver/FinalizerSubscription: next leaves the callback cell alone; error/complete/unsubscribe "
            "call a still-present callback; FnOnce linearity gives at-most-once.", "§4 C15",
            "the race between a terminating and an unsubscribing thread is outside the family; 'right after' (ordering "
            "against the downstream terminal) is not expressed."),
    "C16": ("Verus: is_finished() of every observer under contract returns the property's definition of finished (slot closed "
            "or downstream finished), incl. notifier observers; interval_task / emit_buffer decline when finished; Kani: "
            "from_iter stops pulling, RepeatTask retires when its task declines.", "§4 C16",
            "from_stream drivers do not consult is_finished (not claimed); chains are covered by the per-observer forwarding clause."),
    "C17": ("Verus: is_closed() => dead for Subscriber, ZipSubscription, (), MultiSubscription, TaskHandle (both kinds), "
            "FinalizerSubscription, RefCountSubscription, BehaviorSubject, subjects; unsubscribe makes them dead; a part "
            "appended to an unsubscribed composite is unsubscribed at once — also while the composite is still tearing its parts "
            "down (re-entry discipline); Kani: SubscriberThreads delivers under the cell lock (so is_closed()==true on another "
            "handle cannot be followed by a delivery in flight); (bounded:) Remote::poll polls the task body while the handle's lock is held "
            "(an unsubscribe that lands during a poll waits and then tears the stored result down); structural: MultiSubscription::append "
            "is one critical section (@@atomic).", "§4 C17",
            "'never again false' across clones is the closed-slot argument; debounce's handler cell reports closed while empty (DESIGN §6)."),
    "C18": ("Every unit that exists in a local and a thread-safe form is extracted in BOTH forms (macro instantiations found at "
            "the real invocation sites) and proved against ONE functional contract; Kani: the thread-safe higher-order "
            "builders use the same limits as the local ones.", "§4 C18",
            "box_it (BoxOp) and the MutRef* subjects are not covered."),
    "C19": ("Verus: TaskHandle::{unsubscribe,is_closed} for plain and subscribing tasks, value_handle; Kani: OnceTask::poll "
            "(runs once, arguments gone), FutureTask::poll, RepeatTask::poll (bounded), Remote::poll (a cancelled handle never "
            "starts the body; the body is polled only while the handle lock is held, so unsubscribe() cannot return while it "
            "runs).", "§4 C19",
            "the Ready outcome of Remote::poll (store of the result: CBMC does not finish) is TRUSTED; the schedule() async block "
            "is decided under the sequential reading of rule R12 (Verus: the delay's timer is awaited before the task, the "
            "future is handed to the spawner); executor behaviour is assumed."),
    "C20": ("Verus on the real text of src/ops/group_by.rs, for every pre-state (any number of groups, any key function as an "
            "uninterpreted relation, any item): GroupByObserver::next — an item of a known key is appended to the group of its key "
            "and nothing is announced; the first item of a key announces ONE group with that key (a handle on a fresh subject that "
            "has seen nothing, i.e. announced before the item is forwarded), the item becomes that group's first item; every other "
            "group is left exactly as it was (frame clause) and the key set grows by exactly that key; error / complete hand the "
            "terminal to every announced group (drain: every pair exactly once) and to the stream of groups; is_finished; "
            "KeyObservable::actual_subscribe joins exactly the announced subject; GroupByOp::actual_subscribe (both macro "
            "instantiations) starts from an empty map of groups with the operator's key function.", "§4 C20",
            "the group subjects are abstract (`Subject: Clone + Default + Observer`, as in the real impl header; the real subjects are "
            "under contract under C06); assumed std contracts: HashMap entry().or_insert_with() (rule R17: the closure body becomes "
            "straight-line code), drain() yields every pair exactly once, Hash/Eq of the key obey vstd's key model; 'flattening the "
            "groups reproduces the source' is the per-call clauses folded over the history (no mechanised lemma); the MutRef subjects."),
}

NOT_APPLICABLE = {
    "C10": "all-interleavings safety/liveness of Arc<Mutex> code: Kani has no threads and Verus would need its permission-token "
           "cells, i.e. a rewrite of MutArc into a model; no contract within reach (DESIGN.md §5)",
}
PENDING = "check not built yet (framework under construction, see DESIGN.md §9)"


def main():
    import sys
    sys.path.insert(0, os.path.join(VERIF, "engine"))
    import krun
    kani_props = sorted({p for hf in krun.harness_files() for p in hf["props"] if p in CLAIMS})
    props = [json.loads(l) for l in open(os.path.join(VERIF, "properties.jsonl"))]
    checks = []
    na = []
    for p in props:
        pid = p["id"]
        if pid in CLAIMS:
            text, ref, gap = CLAIMS[pid]
            checks.append(dict(
                property_id=pid,
                quick_cmd="./check %s quick" % pid,
                thorough_cmd="./check %s thorough" % pid,
                evidence_file="/verif/evidence/%s.json" % pid,
                replay_cmd_template="cat {path}",
                engine="verus-extract + kani-real-crate",
                level_claimed=dict(category="proof", text=text, design_ref="DESIGN.md " + ref),
                level_note=COMMON_NOTE + "Not covered: " + gap,
                technique="contract-based deductive verification: Verus on mechanically extracted real functions; Kani step harnesses on the real crate",
            ))
        else:
            na.append(dict(property_id=pid, reason=NOT_APPLICABLE.get(pid, PENDING)))
    hooks_commits = subprocess.check_output(["git", "-C", "/repo", "log", "--format=%h", "--grep=^verif hook"]).decode().split()
    m = dict(
        version=1,
        setup_cmd="python3 -c \"import json,sys; print('verif setup ok')\" && verus --version >/dev/null",
        hooks=dict(guard="rxrust_verif", enable="RUSTFLAGS='--cfg rxrust_verif' (set by engine/krun.py for every Engine-K run; one named yield point in StatusFuture::poll; MutArc::verif_is_locked, a read-only lock observer used by the lock-scope harnesses)",
                   baseline_off_cmd="cd /repo && cargo test --workspace --no-fail-fast --offline",
                   source_commits=hooks_commits, add_only=True),
        engines=[dict(name="kani-real-crate", path="engine/krun.py", serves_properties=kani_props,
                      kind_free_text="scratch copy of /repo + harness modules of contracts/kani appended as #[cfg(kani)] child modules; cargo kani; counterexamples replayed natively"),
                 dict(name="verus-extract", path="engine/", serves_properties=sorted(CLAIMS),
                      kind_free_text="extract.py pulls the real function text out of /repo on every run, splices the contracts of "
                                     "contracts/units/*.vt, vrun.py runs `verus` per unit (+ vacuity canary), check.py decides per property")],
        checks=checks,
        notes="See DESIGN.md. known_findings.json lists repaired (fix:) and recorded defects.",
        not_applicable=na,
    )
    json.dump(m, open(os.path.join(VERIF, "MANIFEST.json"), "w"), indent=1)
    # the function inventory the "needs contract" rule compares against (engine/vrun.py)
    if subprocess.run(["git", "-C", "/repo", "status", "--porcelain", "--", "src"], capture_output=True, text=True).stdout.strip() == "":
        subprocess.run(["python3", os.path.join(VERIF, "engine", "vrun.py"), "--inventory"], check=False)
    else:
        print("WARNING: /repo/src has uncommitted changes: contracts/inventory.json NOT regenerated")
    print("claimed:", [c["property_id"] for c in checks])
    print("not claimed:", [n["property_id"] for n in na])


if __name__ == "__main__":
    main()
