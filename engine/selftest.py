#!/usr/bin/env python3
"""
Mutation self-test (thorough tier): every seeded property-breaking change kept under
/verif/seeded/<name>/ (patch.diff + demonstration + meta.json) is applied to a SCRATCH copy of
/repo's working tree (never to /repo), and the property checks are run against that copy.

  selftest.py <property-id>        seeds whose meta names the property, checked with that check
  selftest.py --matrix             every seed x every claimed property  (which checks catch what)

A seed counts as detected when the check exits 1 with a VIOLATION line; exit 2 (undecided) and
exit 0 are misses.  The scratch copy is removed afterwards.
"""
import os, sys, json, glob, shutil, subprocess, tempfile, re

VERIF = os.path.dirname(os.path.dirname(os.path.abspath(__file__)))


def seeds():
    out = []
    for d in sorted(glob.glob(os.path.join(VERIF, "seeded", "*"))):
        m = os.path.join(d, "meta.json")
        if os.path.exists(m) and os.path.exists(os.path.join(d, "patch.diff")):
            meta = json.load(open(m))
            out.append(dict(name=os.path.basename(d), dir=d, property=meta.get("property"),
                            also=meta.get("also_breaks", [])))
    return out


def run_seed(seed, pids):
    scratch = tempfile.mkdtemp(prefix="verif_seed_", dir="/tmp")
    dst = os.path.join(scratch, "repo")
    res = {}
    try:
        subprocess.run(["rsync", "-a", "--exclude", "target", "--exclude", ".git", "/repo/", dst + "/"], check=True)
        p = subprocess.run(["patch", "-p1", "-s", "-i", os.path.join(seed["dir"], "patch.diff")], cwd=dst,
                           capture_output=True, text=True)
        if p.returncode != 0:
            return {pid: dict(exit=None, note="patch does not apply to the current tree: " + (p.stdout + p.stderr)[:200]) for pid in pids}
        env = dict(os.environ)
        env["RXRUST_REPO"] = dst
        env["VERIF_EVIDENCE_DIR"] = os.path.join(scratch, "evidence")
        env["VERIF_REPLAY_DIR"] = os.path.join(scratch, "replay")
        for pid in pids:
            q = subprocess.run([sys.executable, os.path.join(VERIF, "engine", "check.py"), pid, "--tier", "quick"],
                               cwd=VERIF, env=env, capture_output=True, text=True)
            viol = re.findall(r"^VIOLATION .*?obligation=(\S+)", q.stdout, re.M)
            und = re.findall(r"^UNDECIDED (.*)$", q.stdout, re.M)
            res[pid] = dict(exit=q.returncode, violated_obligations=viol, undecided=und[:3])
        return res
    finally:
        shutil.rmtree(scratch, ignore_errors=True)


def main():
    if len(sys.argv) > 1 and sys.argv[1] == "--matrix":
        man = json.load(open(os.path.join(VERIF, "MANIFEST.json")))
        pids = [c["property_id"] for c in man["checks"]]
        table = {}
        # --only=a,b,c refreshes just these seeds in the existing MATRIX.json
        sel = [a.split("=", 1)[1].split(",") for a in sys.argv if a.startswith("--only=")]
        if sel and os.path.exists(os.path.join(VERIF, "seeded", "MATRIX.json")):
            table = json.load(open(os.path.join(VERIF, "seeded", "MATRIX.json")))
        for s in seeds():
            if sel and s["name"] not in sel[0]:
                continue
            only = [s["property"]] + s["also"] if "--own" in sys.argv else pids
            table[s["name"]] = run_seed(s, [p for p in only if p in pids])
            caught = [p for p, r in table[s["name"]].items() if r["exit"] == 1]
            print(s["name"], "caught by", caught, "| own check exit:", table[s["name"]].get(s["property"], {}).get("exit"))
        json.dump(table, open(os.path.join(VERIF, "seeded", "MATRIX.json"), "w"), indent=1)
        return 0
    if sys.argv[1] == "--patch":
        # run checks against an arbitrary patch (e.g. a behaviour-preserving refactoring: no check may exit 1)
        man = json.load(open(os.path.join(VERIF, "MANIFEST.json")))
        pids = sys.argv[3:] or [c["property_id"] for c in man["checks"]]
        pdir = os.path.dirname(os.path.abspath(sys.argv[2]))
        res = run_seed(dict(name="patch", dir=pdir, property=None, also=[]), pids) if os.path.basename(sys.argv[2]) == "patch.diff" else None
        for p_, r in sorted(res.items()):
            print(p_, "exit", r["exit"], r.get("violated_obligations") or "", (r.get("undecided") or [""])[0][:160])
        return 0
    pid = sys.argv[1]
    out = {}
    for s in seeds():
        if s["property"] == pid or pid in s["also"]:
            out[s["name"]] = run_seed(s, [pid])[pid]
    print(json.dumps(out, indent=1))
    return 0


if __name__ == "__main__":
    sys.exit(main())
